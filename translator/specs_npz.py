"""Structure of Mineral.save / Mineral.load / Mineral.from_file read from the source (group `npz`, C17), tie T.

Runs from gen.py on every build.  `translations()` returns [] (nothing goes through the symbolic tracer); as a
side effect it parses src/pydrex/minerals.py with `ast` and writes coq/gen/Gen_tables_npz.v:

  gen_save  : the two validation tests (what is compared, in which order, which exception), the dictionary `data`
              (keys in order; for each value whether it is `np.array([self.a, self.b, self.c], dtype=np.uint8)`,
              `np.stack(self.<attr>)` or anything else, recorded verbatim), the format of the zip member names of
              the postfix branch, the mode the archive is opened in, the writer of the whole-file branch;
  gen_load / gen_from_file : the suffix test, the subscripts read (postfix branch and plain branch, in order), the
              order the metadata triple is unpacked in, whether and from what the grain count is set.

coq/Inst_npz.v proves that these are the names, the order, the packing and the tests Model_npz.v uses (`key`, `item`,
`member`, `build_data`).  An edit of those source lines changes the table and the instance lemmas stop compiling;
a statement this reader does not recognise makes it FAIL CLOSED (a stub that cannot compile).  The zip container,
numpy.save / numpy.load and np.stack itself stay oracles (checked at run time by harness/props/c17.py).
"""
from __future__ import annotations

import ast
import hashlib
import os
import sys

REPO = os.environ.get("PYDREX_REPO", "/repo")


class Unrecognised(Exception):
    def __init__(self, node, why):
        super().__init__(f"line {getattr(node, 'lineno', '?')}: {why}: {ast.dump(node)[:200] if isinstance(node, ast.AST) else node}")


def q(s):
    if not all(32 <= ord(c) < 127 for c in s):
        raise Unrecognised(s, "non-ASCII text")
    return '"' + s.replace('"', '""') + '"'


def qlist(xs, f=q):
    return "[" + "; ".join(f(x) for x in xs) + "]"


def dotted(e):
    if isinstance(e, ast.Name):
        return e.id
    if isinstance(e, ast.Attribute):
        d = dotted(e.value)
        return None if d is None else d + "." + e.attr
    return None


def self_attr(e):
    """self.<attr> -> attr"""
    if isinstance(e, ast.Attribute) and isinstance(e.value, ast.Name) and e.value.id == "self":
        return e.attr
    return None


def fparts(e, key_var=None):
    """a (format) string expression -> list of parts: ("lit", text) | ("key",) | ("postfix",)"""
    if isinstance(e, ast.Constant) and isinstance(e.value, str):
        return [("lit", e.value)]
    if isinstance(e, ast.JoinedStr):
        out = []
        for p in e.values:
            if isinstance(p, ast.Constant) and isinstance(p.value, str):
                out.append(("lit", p.value))
            elif isinstance(p, ast.FormattedValue) and p.conversion == -1 and p.format_spec is None and isinstance(p.value, ast.Name):
                if p.value.id == "postfix":
                    out.append(("postfix",))
                elif key_var is not None and p.value.id == key_var:
                    out.append(("key",))
                else:
                    raise Unrecognised(e, "name in a format string")
            else:
                raise Unrecognised(e, "part of a format string")
        return out
    raise Unrecognised(e, "string expression")


def coq_parts(ps):
    return "[" + "; ".join({"lit": lambda p: f"FLit {q(p[1])}", "key": lambda p: "FKey", "postfix": lambda p: "FPostfix"}[p[0]](p) for p in ps) + "]"


def is_postfix_not_none(t):
    return (isinstance(t, ast.Compare) and isinstance(t.left, ast.Name) and t.left.id == "postfix" and len(t.ops) == 1
            and isinstance(t.ops[0], ast.IsNot) and isinstance(t.comparators[0], ast.Constant) and t.comparators[0].value is None)


def strip_doc(body):
    body = list(body)
    if body and isinstance(body[0], ast.Expr) and isinstance(body[0].value, ast.Constant) and isinstance(body[0].value.value, str):
        body = body[1:]
    return body


def raised(stmts):
    if len(stmts) == 1 and isinstance(stmts[0], ast.Raise) and stmts[0].exc is not None:
        exc = stmts[0].exc.func if isinstance(stmts[0].exc, ast.Call) else stmts[0].exc
        return dotted(exc)
    raise Unrecognised(stmts[0] if stmts else "empty", "expected a single raise")


def is_log(s):
    return isinstance(s, ast.Expr) and isinstance(s.value, ast.Call) and (dotted(s.value.func) or "").startswith("_log.")


# ---------------------------------------------------------------- save
def data_ctor(v):
    """-> Coq term of type dctor"""
    if isinstance(v, ast.Call) and dotted(v.func) == "np.array" and len(v.args) == 1 and isinstance(v.args[0], ast.List) \
            and len(v.keywords) == 1 and v.keywords[0].arg == "dtype" and dotted(v.keywords[0].value) in ("np.uint8",):
        fields = [self_attr(x) for x in v.args[0].elts]
        if all(fields):
            return f"DMetaU8 {qlist(fields)}"
    if isinstance(v, ast.Call) and dotted(v.func) == "np.stack" and len(v.args) == 1 and not v.keywords and self_attr(v.args[0]):
        return f"DStack {q(self_attr(v.args[0]))}"
    return f"DOther {q(ast.unparse(v)[:120])}"


def read_save(fn):
    body = strip_doc(fn.body)
    if len(body) != 2 or not all(isinstance(s, ast.If) for s in body):
        raise Unrecognised(fn, "save: expected exactly two `if` statements after the docstring")
    c1, c2 = body
    # (1) if len(self.fractions) != len(self.orientations): raise ValueError
    t = c1.test
    ok = (isinstance(t, ast.Compare) and len(t.ops) == 1 and isinstance(t.ops[0], ast.NotEq) and c1.orelse == []
          and all(isinstance(x, ast.Call) and dotted(x.func) == "len" and len(x.args) == 1 and self_attr(x.args[0]) for x in (t.left, t.comparators[0])))
    if not ok:
        raise Unrecognised(c1, "save: first test")
    counts = [self_attr(t.left.args[0]), self_attr(t.comparators[0].args[0])]
    counts_exc = raised(c1.body)
    # (2) if self.fractions[0].shape[0] == self.orientations[0].shape[0] == self.n_grains: ... else: raise ValueError
    t = c2.test
    if not (isinstance(t, ast.Compare) and all(isinstance(o, ast.Eq) for o in t.ops)):
        raise Unrecognised(c2, "save: second test")
    ops = []
    for x in [t.left] + list(t.comparators):
        a = self_attr(x)
        if a:
            ops.append(("attr", a))
            continue
        # self.<attr>[0].shape[0]
        if (isinstance(x, ast.Subscript) and isinstance(x.slice, ast.Constant) and x.slice.value == 0 and isinstance(x.value, ast.Attribute)
                and x.value.attr == "shape" and isinstance(x.value.value, ast.Subscript) and isinstance(x.value.value.slice, ast.Constant)
                and x.value.value.slice.value == 0 and self_attr(x.value.value.value)):
            ops.append(("first_size", self_attr(x.value.value.value)))
            continue
        raise Unrecognised(x, "save: operand of the size test")
    size_exc = raised(c2.orelse)
    inner = list(c2.body)
    if not (inner and isinstance(inner[0], ast.Assign) and len(inner[0].targets) == 1 and isinstance(inner[0].targets[0], ast.Name)
            and inner[0].targets[0].id == "data" and isinstance(inner[0].value, ast.Dict)):
        raise Unrecognised(c2, "save: `data = {...}` expected first in the accepted branch")
    d = inner[0].value
    keys = []
    for k, v in zip(d.keys, d.values):
        if not (isinstance(k, ast.Constant) and isinstance(k.value, str)):
            raise Unrecognised(d, "save: key of `data`")
        keys.append((k.value, data_ctor(v)))
    rest = [s for s in inner[1:] if not is_log(s)]
    rest = [s for s in rest if not (isinstance(s, ast.Expr) and isinstance(s.value, ast.Call) and dotted(s.value.func) == "_io.resolve_path")]
    if len(rest) != 1 or not isinstance(rest[0], ast.If) or not is_postfix_not_none(rest[0].test):
        raise Unrecognised(c2, "save: `if postfix is not None:` expected after `data`")
    br = rest[0]
    # postfix branch: archive = ZipFile(filename, mode="a", ...); for key in data.keys(): with archive.open(f"{key}_{postfix}", "w", ...) ...
    pb = [s for s in br.body if not is_log(s)]
    if not (len(pb) == 2 and isinstance(pb[0], ast.Assign) and isinstance(pb[0].value, ast.Call) and dotted(pb[0].value.func) == "ZipFile"
            and isinstance(pb[1], ast.For)):
        raise Unrecognised(br, "save: postfix branch")
    zcall = pb[0].value
    if not (zcall.args and isinstance(zcall.args[0], ast.Name) and zcall.args[0].id == "filename"):
        raise Unrecognised(zcall, "save: ZipFile is not opened on `filename`")
    mode = [k.value.value for k in zcall.keywords if k.arg == "mode" and isinstance(k.value, ast.Constant)]
    loop = pb[1]
    if not (isinstance(loop.target, ast.Name) and isinstance(loop.iter, ast.Call) and dotted(loop.iter.func) == "data.keys"):
        raise Unrecognised(loop, "save: loop over data.keys()")
    kv = loop.target.id
    if not (len(loop.body) == 1 and isinstance(loop.body[0], ast.With) and len(loop.body[0].items) == 1):
        raise Unrecognised(loop, "save: loop body")
    w = loop.body[0]
    op = w.items[0].context_expr
    if not (isinstance(op, ast.Call) and dotted(op.func) and dotted(op.func).endswith(".open") and len(op.args) >= 2
            and isinstance(op.args[1], ast.Constant) and op.args[1].value == "w"):
        raise Unrecognised(w, "save: archive.open(<name>, \"w\", ...)")
    member_format = fparts(op.args[0], key_var=kv)
    saves = [n for n in ast.walk(w) if isinstance(n, ast.Call) and dotted(n.func) == "np.save"]
    if not (len(saves) == 1 and len(saves[0].args) == 2 and isinstance(saves[0].args[1], ast.Subscript)
            and isinstance(saves[0].args[1].value, ast.Name) and saves[0].args[1].value.id == "data"
            and isinstance(saves[0].args[1].slice, ast.Name) and saves[0].args[1].slice.id == kv):
        raise Unrecognised(w, "save: np.save(buffer, data[key])")
    # whole-file branch: np.savez(filename, **data)
    eb = [s for s in br.orelse if not is_log(s)]
    if not (len(eb) == 1 and isinstance(eb[0], ast.Expr) and isinstance(eb[0].value, ast.Call)):
        raise Unrecognised(br, "save: whole-file branch")
    wc = eb[0].value
    whole = dotted(wc.func)
    if not (len(wc.args) == 1 and isinstance(wc.args[0], ast.Name) and wc.args[0].id == "filename" and len(wc.keywords) == 1
            and wc.keywords[0].arg is None and isinstance(wc.keywords[0].value, ast.Name) and wc.keywords[0].value.id == "data"):
        raise Unrecognised(wc, "save: whole-file writer arguments")
    return (f"mk_save_shape {qlist(counts)} {q(counts_exc)}\n    "
            + "[" + "; ".join(f"SFirst {q(a)}" if kind == "first_size" else f"SAttr {q(a)}" for kind, a in ops) + f"] {q(size_exc)}\n    "
            + "[" + "; ".join(f"({q(k)}, {c})" for k, c in keys) + "]\n    "
            + f"{q(mode[0] if mode else '')} {coq_parts(member_format)} {q(whole)}")


# ---------------------------------------------------------------- load / from_file
def read_loader(fn, is_method_load):
    body = strip_doc(fn.body)
    # if not filename.endswith(".npz"): raise ValueError
    s0 = body[0]
    t = s0.test if isinstance(s0, ast.If) else None
    if not (t is not None and isinstance(t, ast.UnaryOp) and isinstance(t.op, ast.Not) and isinstance(t.operand, ast.Call)
            and dotted(t.operand.func) == "filename.endswith" and len(t.operand.args) == 1 and isinstance(t.operand.args[0], ast.Constant)):
        raise Unrecognised(s0, "loader: suffix test")
    suffix, suffix_exc = t.operand.args[0].value, raised(s0.body)
    s1 = body[1]
    if not (isinstance(s1, ast.Assign) and isinstance(s1.value, ast.Call) and dotted(s1.value.func) == "np.load"
            and len(s1.value.args) == 1 and isinstance(s1.value.args[0], ast.Name) and s1.value.args[0].id == "filename"):
        raise Unrecognised(s1, "loader: data = np.load(filename)")
    s2 = body[2]
    if not (isinstance(s2, ast.If) and is_postfix_not_none(s2.test)):
        raise Unrecognised(s2, "loader: `if postfix is not None:`")

    def reads(stmts):
        """[(targets, subscript parts, wrapped in list()?)] in source order"""
        out = []
        for s in stmts:
            if not (isinstance(s, ast.Assign) and len(s.targets) == 1):
                raise Unrecognised(s, "loader: statement in a read branch")
            tg = s.targets[0]
            names = [self_attr(x) or (x.id if isinstance(x, ast.Name) else None) for x in (tg.elts if isinstance(tg, ast.Tuple) else [tg])]
            v, wrapped = s.value, False
            if isinstance(v, ast.Call) and dotted(v.func) == "list" and len(v.args) == 1:
                v, wrapped = v.args[0], True
            if not (isinstance(v, ast.Subscript) and isinstance(v.value, ast.Name) and v.value.id == "data" and all(names)):
                raise Unrecognised(s, "loader: data[...] read")
            out.append((names, fparts(v.slice), wrapped))
        return out
    rp, rn = reads(s2.body), reads(s2.orelse)
    rest = body[3:]
    # how the grain count is obtained
    n_src = ""
    for n in ast.walk(ast.Module(body=rest, type_ignores=[])):
        if is_method_load and isinstance(n, ast.Assign) and len(n.targets) == 1 and self_attr(n.targets[0]) == "n_grains":
            n_src = ast.unparse(n.value)
        if not is_method_load and isinstance(n, ast.keyword) and n.arg == "n_grains":
            n_src = ast.unparse(n.value)

    def coq_reads(rs):
        return "[" + "; ".join(f"mk_read {qlist(names)} {coq_parts(ps)} {'true' if wr else 'false'}" for names, ps, wr in rs) + "]"
    return f"mk_load_shape {q(suffix)} {q(suffix_exc)}\n    {coq_reads(rp)}\n    {coq_reads(rn)}\n    {q(n_src)}"


PRELUDE = """From Coq Require Import String List.
Import ListNotations.
Open Scope string_scope.

Inductive fpart := FKey | FPostfix | FLit (s : string).
Inductive dctor :=
| DMetaU8 (fields : list string)     (* np.array([self.a, self.b, self.c], dtype=np.uint8) *)
| DStack (attr : string)             (* np.stack(self.<attr>) *)
| DOther (source : string).          (* anything else, verbatim *)
Inductive soperand := SFirst (attr : string) (* self.<attr>[0].shape[0] *) | SAttr (attr : string) (* self.<attr> *).

Record save_shape := mk_save_shape {
  ss_counts : list string;           (* if len(self.a) != len(self.b): raise ... *)
  ss_counts_exc : string;
  ss_sizes : list soperand;          (* if x == y == z: <write> else: raise ... *)
  ss_sizes_exc : string;
  ss_data : list (string * dctor);   (* data = {...}, in order *)
  ss_zip_mode : string;              (* ZipFile(filename, mode=...) of the postfix branch *)
  ss_member : list fpart;            (* archive.open(<this>, "w") inside `for key in data.keys()` *)
  ss_whole_writer : string }.        (* <this>(filename, **data) of the whole-file branch *)

Record read := mk_read { rd_targets : list string; rd_item : list fpart; rd_listed : bool }.
Record load_shape := mk_load_shape {
  ls_suffix : string; ls_suffix_exc : string;
  ls_postfix_reads : list read;      (* `if postfix is not None:` branch, in order *)
  ls_plain_reads : list read;
  ls_n_grains : string }.            (* the expression the grain count is taken from *)
"""


def build_text():
    src = os.path.join(REPO, "src", "pydrex", "minerals.py")
    text = open(src).read()
    tree = ast.parse(text)
    cls = [n for n in tree.body if isinstance(n, ast.ClassDef) and n.name == "Mineral"]
    if len(cls) != 1:
        raise KeyError("class Mineral")
    fns = {n.name: n for n in cls[0].body if isinstance(n, ast.FunctionDef)}
    head = (f"(* GENERATED by translator/specs_npz.py from {os.path.relpath(src, REPO)} -- do not edit.\n"
            f"   sha256 {hashlib.sha256(text.encode()).hexdigest()}\n"
            f"   save: lines {fns['save'].lineno}-{fns['save'].end_lineno}, load: {fns['load'].lineno}-{fns['load'].end_lineno}, "
            f"from_file: {fns['from_file'].lineno}-{fns['from_file'].end_lineno} *)\n")
    return (head + PRELUDE + "\nDefinition gen_save : save_shape :=\n  " + read_save(fns["save"]) + ".\n\n"
            + "Definition gen_load : load_shape :=\n  " + read_loader(fns["load"], True) + ".\n\n"
            + "Definition gen_from_file : load_shape :=\n  " + read_loader(fns["from_file"], False) + ".\n")


def translations():
    outdir = sys.argv[1] if len(sys.argv) > 1 else os.path.join(
        os.path.dirname(os.path.dirname(os.path.abspath(__file__))), "coq", "gen")
    path = os.path.join(outdir, "Gen_tables_npz.v")
    try:
        text = build_text()
    except Exception as e:
        msg = f"{type(e).__name__}: {e}".replace("*)", "* )").replace("(*", "( *")
        with open(path, "w") as f:
            f.write("(* GENERATED by translator/specs_npz.py: reading Mineral.save / load / from_file FAILED\n   " + msg + " *)\n"
                    "Definition table_generation_failed : True := 0.\n")
        raise
    if not (os.path.exists(path) and open(path).read() == text):
        with open(path, "w") as f:
            f.write(text)
    return []


if __name__ == "__main__":
    print(build_text())
