"""Translator specs for C15: pydrex.stats.resample_orientations (tie T at small sizes).

Gen_stats.v  <-  pydrex/stats.py, function `resample_orientations`, traced AS IT IS (the public
function object is called; nothing is re-implemented) at

  k_resample_N{N}_M{M}_n{n}   orientations fractions u perm_0 [perm_1]
        N snapshots x M grains in {1x1, 1x2, 1x3, 2x2}, n_samples = n in 1..3 passed POSITIONALLY
        together with a seed object (argument order of the public signature is part of the trace)
  k_resample_N{N}_M{M}_default   the same with `n_samples` and `seed` omitted (defaults of the source)
  k_resample_N1_M2_neg         n_samples = -1 (np.empty raises ValueError)
  k_validate_o{ro}_f{rf}  so0 .. sf0 ..   the shape test alone, for SYMBOLIC dimensions (Z) and each
        pair of ranks ro in 0..5, rf in 0..3: `Err ValueError`, or `Ok zero` when the function gets past
        the test (= reaches np.random.default_rng, its first action after the test)

Oracles / primitives (the NumPy routines the function calls; `StatsProxy` below, a subclass of the
shared ProxyNumpy -- symtrace.py and emit_coq.py are unchanged):

  np.argsort(frac)          ORACLE: the i-th call must be applied to row i of `fractions` (checked
                            structurally, else the translator fails closed).  Its result is the symbolic
                            permutation `perm_i : Z` (decimal digit code, e.g. 102 for [1, 0, 2]); the first
                            use as an index forks over the M! codes (`Z.eqb perm_i code`), anything
                            else is the leaf `Err OtherError` (oracle contract: argsort returns a permutation)
  module-level state        the call must leave every module-level binding / container of pydrex.stats as it was
                            (checked around each traced call; the explicit-seed traces pass an `int` subclass as the
                            seed so that code reserved for integer seeds is executed) -- else fail closed
  rng.random(n)             ORACLE: np.random.default_rng must receive the caller's `seed` object (or
                            None when omitted); the i-th call `random(k)` must have k == n_samples and no
                            other argument (a dtype= argument fails closed) and returns row i of the
                            symbolic array `u` (N x n); any other Generator method fails closed
  a[perm], a[ints]          fancy indexing with a decided permutation / with integer results of
                            searchsorted: NumPy's own indexing on the object array (IndexError as NumPy)
  ndarray.cumsum()          1-D: c_0 = a_0, c_k = c_(k-1) + a_k (sequential, as NumPy accumulates)
  np.searchsorted(c, v)     per element of v: the number of LEADING entries of c that are < v
                            (side="left"; <= for side="right"), one fork per comparison -- what any
                            binary search returns on an ascending array.  That `c` is ascending is NOT
                            checked here (trusted, as in the hand-written model: true in binary64 for
                            non-negative volumes)
  np.empty / np.asarray     object arrays of `Uninit` entries (any entry left unset fails closed) / identity

Every definition is a decision tree over `Z.eqb perm_i code` and `ltb c_k u_s` with leaves
`Ok (orientations', fractions')`, `Err IndexError` (a variate above the pinned last entry 1.0), ...
coq/Inst_stats.v proves each of them equal to Model_stats.resample (faithful variant) for all inputs.
"""
from __future__ import annotations

import itertools
import types

import numpy as _np

import symtrace as T
from symtrace import (CONST, Cond, Node, ProxyNumpy, SArr, Spec, SymInt, TRACER, Translation,
                      TranslatorUnsupported, NonFiniteValue, Uninit, lift, _build_tree, _norm_ret, _obj)

SIZES = ((1, 1), (1, 2), (1, 3), (2, 2))
N_SAMPLES = (1, 2, 3)
# 2x2 with three samples has 902 paths: the instance proof is too slow for the quick tier
SKIP = {(2, 2, 3)}
RANKS_O = (0, 1, 2, 3, 4, 5)
RANKS_F = (0, 1, 2, 3)


def perm_code(p):
    """decimal digit code of a permutation of 0..M-1 (M <= 9): [1, 0, 2] -> 102"""
    c = 0
    for d in p:
        c = 10 * c + int(d)
    return c


class _ValidationPassed(Exception):
    """the shape test was passed and the function went on to its first action"""


class _OracleContract(Exception):
    """argsort's result is not one of the M! permutations"""


class SymDim:
    """one symbolic dimension of an array shape: only ==/!= against ints and other dimensions"""

    def __init__(self, name):
        self.name = name

    def _eq(self, o):
        if isinstance(o, SymDim):
            if o.name == self.name:
                return True
            return bool(Cond("ieq", self.name, o.name))
        if isinstance(o, (int, _np.integer)) and not isinstance(o, bool):
            return bool(Cond("ieq", self.name, int(o)))
        raise TranslatorUnsupported(f"comparison of an array dimension with {type(o)}")

    def __eq__(self, o):
        return self._eq(o)

    def __ne__(self, o):
        return not self._eq(o)

    def __hash__(self):
        return hash(self.name)

    def _no(self, *a, **k):
        raise TranslatorUnsupported("arithmetic / ordering on a symbolic array dimension")

    __lt__ = __le__ = __gt__ = __ge__ = __add__ = __radd__ = __sub__ = __mul__ = __rmul__ = _no
    __index__ = __int__ = __bool__ = _no


class ShapeOnly:
    """what np.asarray returns while the shape test alone is traced: an object with a `.shape`"""

    def __init__(self, dims):
        self.shape = tuple(dims)

    @property
    def ndim(self):
        return len(self.shape)

    def __getattr__(self, name):
        raise TranslatorUnsupported(f"ndarray.{name} used before / inside the shape test")

    def __len__(self):
        raise TranslatorUnsupported("len() of an array inside the shape test")


class SymPerm:
    """result of np.argsort on a row of symbolic volumes: decided (forked) on first use"""

    def __init__(self, name, m):
        self.name, self.m, self.concrete = name, m, None

    def decide(self):
        if self.concrete is None:
            for p in itertools.permutations(range(self.m)):
                if bool(Cond("ieq", self.name, perm_code(p))):
                    self.concrete = [int(i) for i in p]
                    break
            else:
                raise _OracleContract()
        return self.concrete

    def __getattr__(self, name):
        raise TranslatorUnsupported(f"argsort result: .{name} is not modelled")


class RArr(SArr):
    """object ndarray with the ndarray behaviour resample_orientations relies on"""

    def __getitem__(self, idx):
        if isinstance(idx, SymPerm):
            if self.ndim < 1 or self.shape[0] != idx.m:
                raise TranslatorUnsupported("permutation index on an axis of another length")
            idx = idx.decide()
        elif isinstance(idx, tuple) and any(isinstance(i, SymPerm) for i in idx):
            raise TranslatorUnsupported("permutation inside a tuple index")
        return super().__getitem__(idx)

    def cumsum(self, *a, **k):
        if a or k or self.ndim != 1:
            raise TranslatorUnsupported("cumsum other than 1-D ndarray.cumsum()")
        src = _np.asarray(self, dtype=object)
        out = _np.empty(self.shape, dtype=object).view(RArr)
        acc = None
        for i in range(len(src)):
            acc = lift(src[i]) if acc is None else acc + lift(src[i])
            out[i] = acc
        return out

    def _unsupported(self, *a, **k):
        raise TranslatorUnsupported("ndarray method not modelled by the resample translator")

    sort = argsort = searchsorted = take = astype = cumprod = clip = repeat = _unsupported
    max = min = mean = round = _unsupported


def _rarr(a):
    return _obj(a).view(RArr)


class SymRng:
    def __init__(self, owner):
        self.__dict__["owner"] = owner

    def random(self, *a, **k):
        ow = self.owner
        if k or len(a) != 1:
            raise TranslatorUnsupported(
                f"Generator.random called with arguments {a} {sorted(k)}: only random(n_samples) is modelled")
        n = a[0]
        if not isinstance(n, (int, _np.integer)) or isinstance(n, bool):
            raise TranslatorUnsupported("Generator.random(size) with a non-integer size")
        if ow.u is None or int(n) != ow.u.shape[1]:
            raise TranslatorUnsupported("Generator.random(k) with k different from n_samples")
        if ow.ndraw >= ow.u.shape[0]:
            raise TranslatorUnsupported("more calls of Generator.random than snapshots")
        row = ow.u[ow.ndraw]
        ow.ndraw += 1
        return row.view(RArr)

    def __getattr__(self, name):
        raise TranslatorUnsupported(f"numpy.random.Generator.{name} is not modelled")


class _Random:
    def __init__(self, owner):
        self.owner = owner

    def default_rng(self, *a, **k):
        ow = self.owner
        if ow.validate_only:
            raise _ValidationPassed()
        if len(a) + len(k) > 1 or (k and list(k) != ["seed"]):
            raise TranslatorUnsupported("default_rng called with other arguments than the seed")
        seed = a[0] if a else k.get("seed", None)
        if seed is not ow.seed:
            raise TranslatorUnsupported("default_rng does not receive the caller's seed")
        if ow.rng_made:
            raise TranslatorUnsupported("more than one generator is created")
        ow.rng_made = True
        return SymRng(ow)

    def __getattr__(self, name):
        raise TranslatorUnsupported(f"numpy.random.{name} is not modelled")


class StatsProxy(ProxyNumpy):
    def __init__(self):
        super().__init__()
        self.random = _Random(self)
        self.reset()

    def reset(self, fractions=None, u=None, seed=None, validate_only=False):
        self.fractions, self.u, self.seed, self.validate_only = fractions, u, seed, validate_only
        self.ndraw = self.nsort = 0
        self.rng_made = False

    def asarray(self, x, *a, **k):
        if a or k:
            raise TranslatorUnsupported("np.asarray with a dtype / order")
        if isinstance(x, (ShapeOnly, RArr)):
            return x
        raise TranslatorUnsupported(f"np.asarray of {type(x)}")

    array = asarray

    def empty(self, shape, dtype=None):
        if dtype is not None:
            raise TranslatorUnsupported("np.empty with a dtype")
        return super().empty(shape).view(RArr)

    def argsort(self, x, *a, **k):
        if a or k:
            raise TranslatorUnsupported("np.argsort with axis / kind / order arguments")
        if self.fractions is None or self.nsort >= self.fractions.shape[0]:
            raise TranslatorUnsupported("np.argsort called more often than there are snapshots")
        want = self.fractions[self.nsort]
        x = _np.asarray(x, dtype=object)
        if x.shape != want.shape or any(p is not q for p, q in zip(x.reshape(-1), want.reshape(-1))):
            raise TranslatorUnsupported(
                f"np.argsort call {self.nsort} is not applied to row {self.nsort} of `fractions`: "
                "the sort-permutation oracle of Model_stats.resample would mean something else")
        p = SymPerm(f"perm_{self.nsort}", want.shape[0])
        self.nsort += 1
        return p

    def searchsorted(self, a, v, side="left", sorter=None):
        if sorter is not None or side not in ("left", "right"):
            raise TranslatorUnsupported("np.searchsorted with a sorter / unknown side")
        a = _np.asarray(a, dtype=object)
        v = _np.asarray(v, dtype=object)
        if a.ndim != 1 or v.ndim != 1:
            raise TranslatorUnsupported("np.searchsorted other than 1-D in 1-D")
        op = "lt" if side == "left" else "le"
        out = []
        for x in v:
            k = 0
            while k < len(a) and bool(Cond(op, lift(a[k]), lift(x))):
                k += 1
            out.append(k)
        return _np.array(out, dtype=_np.intp)


class StatsTranslation(Translation):
    """the shared Translation with (a) two more leaves: `_ValidationPassed` -> `Ok zero`,
    `_OracleContract` -> `Err OtherError`; (b) definitions none of whose paths returns (a malformed
    concrete call) are allowed when the spec declares the return shape (`ret_decl`)."""

    def _trace(self, d):
        try:
            super()._trace(d)
        except TranslatorUnsupported as e:
            decl = getattr(d["spec"], "ret_decl", None)
            if decl is None or "no path returns" not in str(e):
                raise
            d["ret"], d["fallible"] = decl, True

    def _trace_paths(self, d, perm):
        spec = d["spec"]
        mod = self.module
        fn = self.orig[spec.pyname]
        paths = []
        stack = [[]]
        while stack:
            script = stack.pop()
            forced = len(script)
            st = {"script": list(script), "ndec": 0, "memo": {}, "events": [], "calls": {}}
            outer = TRACER.cur
            try:
                TRACER.cur = st
                args = self._make_args(spec, d["statics"], perm)
                originals = [a.copy() if isinstance(a, _np.ndarray) else None for a in args]
                try:
                    out = fn(*args)
                    for (pname, pkind, _), a, a0 in zip(spec.params, args, originals):
                        if a0 is not None and pkind in ("arr", "static"):
                            fa, f0 = a.reshape(-1), a0.reshape(-1)
                            if len(fa) != len(f0) or any(x is not y for x, y in zip(fa, f0)):
                                raise TranslatorUnsupported(
                                    f"{spec.pyname} mutates its array argument `{pname}` in place")
                    leaf = ("ret", _norm_ret(out))
                except TranslatorUnsupported:
                    raise
                except _ValidationPassed:
                    leaf = ("ret", ("scalar", CONST(0)))
                except _OracleContract:
                    leaf = ("err", "OtherError")
                except ZeroDivisionError:
                    leaf = ("err", "DivZero")
                except NonFiniteValue:
                    leaf = ("err", "NonFinite")
                except ValueError:
                    leaf = ("err", "ValueError")
                except AssertionError:
                    leaf = ("err", "AssertionError")
                except IndexError:
                    leaf = ("err", "IndexError")
                except TypeError:
                    leaf = ("err", "TypeError")
            finally:
                TRACER.cur = outer
            paths.append((st["events"], leaf))
            decs = st["script"]
            for i in range(forced, len(decs)):
                stack.append(decs[:i] + [False])
            if len(paths) > 4000:
                raise TranslatorUnsupported(f"{spec.pyname}: more than 4000 paths")
        return _build_tree(paths)


class _Seed(int):
    """stands for the caller's `seed` argument: an `int` (so that code paths reserved for integer seeds are
    traced) whose IDENTITY is what default_rng must receive"""


def _module_state(mod):
    """identity of every module-level binding + a shallow digest of module-level containers: the traced function
    must leave them alone (a pure model cannot describe a function that keeps state between calls)"""
    out = {}
    for k, v in vars(mod).items():
        if k.startswith("__") and k.endswith("__"):
            continue
        d = id(v)
        if isinstance(v, (dict, list, set)):
            try:
                d = (id(v), len(v), tuple(sorted(map(id, v.values() if isinstance(v, dict) else v))))
            except Exception:  # noqa: BLE001
                pass
        out[k] = d
    return out


def translations():
    import os as _os
    import srcguard as _srcguard
    _srcguard.guard_from_baseline("specs_stats", _os.environ.get("PYDREX_REPO", "/repo"))   # fail closed on new block-size-like integers
    import pydrex.stats as stats

    real = stats.__dict__["resample_orientations"]
    real = getattr(real, "py_func", real)

    ad = types.ModuleType("pydrex_stats_adapters")
    ad.np = None
    tr = StatsTranslation(ad, [])
    proxy = StatsProxy()
    tr.proxy = proxy
    names = []

    def register(pyname, fn, params, cname, ret_decl=None):
        ad.__dict__[pyname] = fn
        tr.orig[pyname] = fn
        sp = Spec(ad, pyname, params, cname=cname)
        sp.ret_decl = ret_decl
        tr.specs[pyname] = sp
        names.append(pyname)

    RET = ("tuple", (("arr", (1, 1, 3, 3)), ("arr", (1, 1))))   # only the type is used (no path returns)

    def mk_full(N, M, n, defaults):
        def resample(orientations, fractions, u, *perms):
            seed = None if defaults else _Seed(20260929)
            o, f = orientations.view(RArr), fractions.view(RArr)
            proxy.reset(fractions=f, u=u.view(RArr) if u is not None else None, seed=seed)
            try:
                before = _module_state(stats)
                out = real(o, f) if defaults else real(o, f, n, seed)
                after = _module_state(stats)
                if before != after:
                    changed = sorted(k for k in set(before) | set(after) if before.get(k) != after.get(k))
                    raise TranslatorUnsupported(
                        "resample_orientations changes module-level state of pydrex.stats (" + ", ".join(changed) +
                        "): its result may depend on earlier calls, which the pure model Model_stats.resample cannot express")
                if not (isinstance(out, tuple) and len(out) == 2):
                    raise TranslatorUnsupported("resample_orientations does not return two values")
                nn = M if defaults else n
                if _np.shape(out[0]) != (N, nn, 3, 3) or _np.shape(out[1]) != (N, nn):
                    raise TranslatorUnsupported(
                        f"resample_orientations returns shapes {_np.shape(out[0])}, {_np.shape(out[1])}")
                if proxy.nsort != N or proxy.ndraw != N or not proxy.rng_made:
                    raise TranslatorUnsupported(
                        "resample_orientations does not sort / draw exactly once per snapshot")
                return out
            finally:
                proxy.reset()
        return resample

    def mk_neg(N, M):
        def resample(orientations, fractions):
            seed = _Seed(20260929)
            o, f = orientations.view(RArr), fractions.view(RArr)
            proxy.reset(fractions=f, u=None, seed=seed)
            try:
                return real(o, f, -1, seed)
            finally:
                proxy.reset()
        return resample

    def mk_validate(ro, rf):
        def validate(*dims):
            so = [SymDim(d.name) for d in dims[:ro]]
            sf = [SymDim(d.name) for d in dims[ro:]]
            proxy.reset(validate_only=True)
            try:
                real(ShapeOnly(so), ShapeOnly(sf))
            finally:
                proxy.reset()
            raise TranslatorUnsupported("resample_orientations returned without creating a generator")
        return validate

    for ro in RANKS_O:
        for rf in RANKS_F:
            params = [(f"so{i}", "enum", None) for i in range(ro)] + [(f"sf{i}", "enum", None) for i in range(rf)]
            register(f"validate_o{ro}_f{rf}", mk_validate(ro, rf), params, f"k_validate_o{ro}_f{rf}",
                     ret_decl=("scalar",))
    for N, M in SIZES:
        base = [("orientations", "arr", (N, M, 3, 3)), ("fractions", "arr", (N, M))]
        perms = [(f"perm_{i}", "enum", None) for i in range(N)]
        for n in N_SAMPLES:
            if (N, M, n) in SKIP:
                continue
            register(f"resample_N{N}_M{M}_n{n}", mk_full(N, M, n, False),
                     base + [("u", "arr", (N, n))] + perms, f"k_resample_N{N}_M{M}_n{n}")
        register(f"resample_N{N}_M{M}_default", mk_full(N, M, M, True),
                 base + [("u", "arr", (N, M))] + perms, f"k_resample_N{N}_M{M}_default")
    register("resample_N1_M2_neg", mk_neg(1, 2),
             [("orientations", "arr", (1, 2, 3, 3)), ("fractions", "arr", (1, 2))],
             "k_resample_N1_M2_neg", ret_decl=RET)

    saved = stats.__dict__["np"]
    stats.__dict__["np"] = proxy
    try:
        for nm in names:
            # every other registered name would be a call stub: none of them is called
            tr.ensure(nm, {})
    finally:
        stats.__dict__["np"] = saved
    return [("Gen_stats", tr, stats.__file__)]
