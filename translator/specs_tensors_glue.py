"""Translator specs for the LAPACK / Python *glue* of the tensors group (tie T for C10, C11, C12).

Kept apart from specs_tensors.py (the numeric kernels) so that each module fails closed on its own.

Gen_polar.v    <-  pydrex.tensors.polar_decompose, both variants, traced from the real function over an
                   SVD *oracle*:

  k_polar_decompose_left  matrix U S Vh : (arr * arr)       = polar_decompose(matrix, True)
  k_polar_decompose_right matrix U S Vh : res (arr * arr)   = polar_decompose(matrix, False)

  `np.linalg.svd(<3x3>)` becomes the three symbolic parameters (U, S, Vh); the translator checks
  structurally that svd is applied to the function's own `matrix` argument, at most once, and fails
  closed otherwise (the hypotheses `M = U diag(S) Vh`, ... of the theorems are about that matrix).
  `np.linalg.inv(<3x3>)` is adjugate / determinant and raises LinAlgError (a ValueError) when the
  determinant is exactly 0, as `Model_decomp.inv3`.  `A @ B` (3x3) is sum_k A[i,k] B[k,j], left to
  right; `np.diag`, `.transpose()`, `np.eye`, `.astype(float64)` are the obvious array operations.
  NumPy semantics added for this live in `TArr` / `PolarLinalg` / `PolarProxy` below (subclasses of
  the shared classes; nothing in symtrace.py changes).

Gen_voigt.v    <-  pydrex.minerals.voigt_averages (Python glue, C10), traced from the real function at small
                   sizes.  One definition per *configuration* (shapes are concrete, contents symbolic):

  k_voigt_a{A}_m{nm}_s{ns}_g{ng} ph_0 .. ph_{nm-1} phis S_ol S_en O_0 F_0 .. O_{nm-1} F_{nm-1} : res (arr F)
        A   = phase_assemblage as ordinals of MineralPhase (0 | 1 | 01 | 10), phis = phase_fractions (len(A) symbols)
        ph_k = the `phase` attribute of mineral k -- a SYMBOLIC ordinal (forks on `== 0`, `== 1`, else: not a member)
        S_ol, S_en = the `olivine` / `enstatite` attributes of a real `StiffnessTensors` instance (6x6 symbols);
                     the real `StiffnessTensors.__iter__` runs inside the trace (lookup order = phase ordinal)
        O_k (ns, ng, 3, 3), F_k (ns, ng) = the snapshots of mineral k (real `Mineral` objects whose
                     `orientations` / `fractions` lists hold ns symbolic arrays, `n_grains` = ng)
        result: the (ns, 6, 6) array, or Err ValueError (phase not in the assemblage) / Err IndexError (ordinal
                     that indexes no stiffness tensor, too few phase fractions)
    plus the validation branches (`k_voigt_bad_*`: unequal n_grains, unequal numbers of orientation / fraction
    snapshots, no minerals, `n_grains` larger than the arrays) and too few phase fractions (`_f1`).
  `_tensors.voigt_to_elastic_tensor`, `_tensors.rotate`, `_tensors.elastic_tensor_to_voigt` stay CALLS of the
  generated kernels of Gen_tensors (signatures checked against specs_tensors); any other attribute of `_tensors`,
  and any numpy function the proxy does not know, fails closed.
"""
from __future__ import annotations

import types

import numpy as _np

from symtrace import (CONST, Cond, ProxyLinalg, ProxyNumpy, SArr, Spec, SymInt, Translation,
                      TranslatorUnsupported, _obj, lift)


# ---------------------------------------------------------------------------------------
# array semantics used by the LAPACK glue
# ---------------------------------------------------------------------------------------
class TArr(SArr):
    """object ndarray with `@` (3x3)"""

    def __matmul__(self, o):
        a = _np.asarray(self, dtype=object)
        b = _np.asarray(o, dtype=object)
        if a.shape != (3, 3) or b.shape != (3, 3):
            raise TranslatorUnsupported("@ other than 3x3 @ 3x3")
        out = _np.empty((3, 3), dtype=object).view(TArr)
        for i in range(3):
            for j in range(3):
                out[i, j] = a[i, 0] * b[0, j] + a[i, 1] * b[1, j] + a[i, 2] * b[2, j]
        return out

    def __rmatmul__(self, o):
        return _tarr(o).__matmul__(self)


def _tarr(a):
    return _obj(a).view(TArr)


class SvdOracle:
    """state of ONE traced call: the matrix the function was given and the oracle's outputs"""

    def __init__(self):
        self.matrix = self.out = None
        self.used = 0


class PolarLinalg(ProxyLinalg):
    def __init__(self, orc):
        self.orc = orc

    def svd(self, m, *a, **kw):
        orc = self.orc
        if a or kw:
            raise TranslatorUnsupported("np.linalg.svd with options")
        if orc.matrix is None:
            raise TranslatorUnsupported("np.linalg.svd outside polar_decompose")
        m = _obj(m)
        if m.shape != (3, 3):
            raise TranslatorUnsupported("svd of a non 3x3 array")
        for i in range(3):
            for j in range(3):
                if m[i, j] is not orc.matrix[i, j]:
                    raise TranslatorUnsupported(
                        "np.linalg.svd is not applied to the argument `matrix` (entry %d,%d): the oracle "
                        "hypothesis M = U diag(S) Vh of the polar theorems would mean something else" % (i, j))
        orc.used += 1
        if orc.used > 1:
            raise TranslatorUnsupported("np.linalg.svd called more than once")
        U, S, Vh = orc.out
        return U.copy().view(TArr), S.copy().view(TArr), Vh.copy().view(TArr)

    def inv(self, m):
        m = _obj(m)
        if m.shape != (3, 3):
            raise TranslatorUnsupported("inv of a non 3x3 array")
        d = self.det(m)
        if bool(Cond("eq", lift(d), CONST(0))):
            raise _np.linalg.LinAlgError("Singular matrix")       # a ValueError
        out = _np.empty((3, 3), dtype=object).view(TArr)
        adj = [[m[1, 1] * m[2, 2] - m[1, 2] * m[2, 1], m[0, 2] * m[2, 1] - m[0, 1] * m[2, 2],
                m[0, 1] * m[1, 2] - m[0, 2] * m[1, 1]],
               [m[1, 2] * m[2, 0] - m[1, 0] * m[2, 2], m[0, 0] * m[2, 2] - m[0, 2] * m[2, 0],
                m[0, 2] * m[1, 0] - m[0, 0] * m[1, 2]],
               [m[1, 0] * m[2, 1] - m[1, 1] * m[2, 0], m[0, 1] * m[2, 0] - m[0, 0] * m[2, 1],
                m[0, 0] * m[1, 1] - m[0, 1] * m[1, 0]]]
        for i in range(3):
            for j in range(3):
                out[i, j] = adj[i][j] / d
        return out


class PolarProxy(ProxyNumpy):
    def __init__(self, orc):
        super().__init__()
        self.linalg = PolarLinalg(orc)

    def diag(self, v):
        return super().diag(v).view(TArr)

    def eye(self, n, *a, **kw):
        if a or kw:
            raise TranslatorUnsupported("np.eye with options")
        return super().eye(n).view(TArr)


class GlueTranslation(Translation):
    """a definition all of whose paths raise (a validation branch at a fixed inconsistent shape) is allowed: its
    result type is the one the spec declares (`ret_hint`)"""

    def _trace(self, d):
        try:
            return super()._trace(d)
        except TranslatorUnsupported as e:
            hint = getattr(d["spec"], "ret_hint", None)
            if "no path returns" not in str(e) or hint is None or "trees" not in d:
                raise
            d["ret"], d["fallible"] = hint, True

    def ensure(self, pyname, statics):
        d = super().ensure(pyname, statics)
        if getattr(d["spec"], "force_fallible", False):
            d["fallible"] = True            # result type `res ..` whether or not a path raises (keeps callers typed)
        return d


def polar_translation(tensors):
    """Gen_polar: the two variants of polar_decompose over the SVD oracle"""
    real = tensors.__dict__["polar_decompose"]
    real = getattr(real, "py_func", real)
    ad = types.ModuleType("pydrex_tensors_adapters")
    ad.np = None
    tr = GlueTranslation(ad, [])
    orc = SvdOracle()
    tr.proxy = PolarProxy(orc)
    tr.header_extra = "(* polar_decompose over the SVD oracle (U, S, Vh) = np.linalg.svd(matrix) *)\n"

    def mk(left):
        def polar(matrix, U, S, Vh):
            orc.matrix, orc.out, orc.used = matrix, (U, S, Vh), 0
            try:
                out = real(matrix.view(TArr), left)
            finally:
                orc.matrix = orc.out = None
            # a path that returns without consulting the SVD is traced like any other: the instance lemmas
            # Inst_polar.polar_left_inst / polar_right_inst then no longer hold (used <= 1 is checked in svd)
            if not (isinstance(out, tuple) and len(out) == 2):
                raise TranslatorUnsupported("polar_decompose does not return two values")
            return out
        return polar

    params = [("matrix", "arr", (3, 3)), ("U", "arr", (3, 3)), ("S", "arr", (3,)), ("Vh", "arr", (3, 3))]
    for nm, left in (("polar_decompose_left", True), ("polar_decompose_right", False)):
        fn = mk(left)
        ad.__dict__[nm] = fn
        tr.orig[nm] = fn
        tr.specs[nm] = Spec(ad, nm, params, cname="k_" + nm)
    # the right variant raises for singular input in one version of the source and never in the repaired one:
    # its generated type is `res` in both, so that Entry_tensors / Inst_tensors stay well typed across the repair
    tr.specs["polar_decompose_right"].force_fallible = True
    saved = tensors.__dict__["np"]
    try:
        tensors.__dict__["np"] = tr.proxy
        for nm in ("polar_decompose_left", "polar_decompose_right"):
            tr.ensure(nm, {})
    finally:
        tensors.__dict__["np"] = saved
    return tr


# ---------------------------------------------------------------------------------------
# pydrex.minerals.voigt_averages
# ---------------------------------------------------------------------------------------
class _Closed:
    """namespace standing for a module: only the listed names exist"""

    def __init__(self, what, **names):
        self.__dict__["_what"] = what
        self.__dict__.update(names)

    def __getattr__(self, name):
        raise TranslatorUnsupported(f"{self._what}.{name} is not modelled by the glue translator")


class PhaseOrd(SymInt):
    """the `phase` attribute of a mineral: a symbolic ordinal of MineralPhase.  Used as a list index it is the
    member it equals (fork per member); an ordinal that is no member indexes nothing (IndexError from the list)."""

    members = (0, 1)

    def __init__(self, name):
        super().__init__(name)
        self.value = None          # the member this ordinal was found equal to on the current path

    def __eq__(self, o):
        if isinstance(o, (int, _np.integer)) and self.value is not None:
            return self.value == int(o)        # an ordinal equals at most one member
        r = SymInt.__eq__(self, o)
        if r is True:
            self.value = int(o)
        return r

    def __ne__(self, o):
        r = self.__eq__(o)
        return r if r is NotImplemented else not r

    def __index__(self):
        for v in self.members:
            if self == v:
                return v
        return 10 ** 9

    __hash__ = SymInt.__hash__


VOIGT_ASSEMBLAGES = {"0": (0,), "1": (1,), "01": (0, 1), "10": (1, 0)}
VOIGT_SIZES = ((1, 1, 1), (2, 1, 1), (1, 2, 1), (1, 1, 2))                 # (minerals, snapshots, grains)
VOIGT_SIZES_A0 = ((2, 2, 1), (2, 1, 2))     # assemblage [olivine] only: two of the three dimensions at 2 together (the full
                                            # 2 x 2 x 2 instance lemma needs 5 CPU-minutes and 5 GB: dropped)


def voigt_translation():
    import logging
    import pydrex.core as core
    import pydrex.logger as plog
    import pydrex.minerals as pm
    import specs_tensors

    tens_tr = specs_tensors.translations()[0][1]
    PhaseOrd.members = tuple(int(p) for p in core.MineralPhase)
    ad = types.ModuleType("pydrex_minerals_voigt_adapters")
    ad.np = None
    tr = GlueTranslation(ad, [])
    tr.header_extra = "From PV.gen Require Import Gen_tensors.\n"
    tr.plain_let_calls = True          # call results stay shared `let`s in the kernel term (see emit_coq.py)
    proxy = tr.proxy

    def kernel(name):
        spec = tens_tr.specs[name]

        def call(*a, **kw):
            return tens_tr._stub(spec)(*a, **kw)
        return call

    glue_tensors = _Closed("pydrex.tensors", voigt_to_elastic_tensor=kernel("voigt_to_elastic_tensor"),
                           elastic_tensor_to_voigt=kernel("elastic_tensor_to_voigt"), rotate=kernel("rotate"))
    real = pm.__dict__["voigt_averages"]

    def mk_mineral(ph, n_attr, os_, fs_):
        m = pm.Mineral(phase=core.MineralPhase.olivine, fabric=core.MineralFabric.olivine_A,
                       regime=core.DeformationRegime.matrix_dislocation, n_grains=max(n_attr, 1))
        m.n_grains = n_attr
        m.phase = ph
        m.orientations = list(os_)
        m.fractions = list(fs_)
        return m

    def mk(assemblage, nphi, layout):
        """layout: per mineral (n_grains attribute, n orientation snapshots, n fraction snapshots, grains per array)"""
        def voigt(*args):
            nm = len(layout)
            phs, rest = args[:nm], args[nm:]
            phis, S_ol, S_en = rest[0], rest[1], rest[2]
            arrs = rest[3:]
            st = pm.StiffnessTensors(olivine=_np.zeros((6, 6)), enstatite=_np.zeros((6, 6)))
            st.olivine, st.enstatite = S_ol, S_en
            ms = []
            for k, (n_attr, nos, nfs, _g) in enumerate(layout):
                O, F = arrs[2 * k], arrs[2 * k + 1]
                ms.append(mk_mineral(PhaseOrd(phs[k].name), n_attr, [O[i] for i in range(nos)], [F[i] for i in range(nfs)]))
            asm = [core.MineralPhase(a) for a in assemblage]
            fr = [phis[i] for i in range(nphi)]
            keep = [(m.orientations[:], m.fractions[:]) for m in ms]
            saved = [(k, pm.__dict__[k]) for k in ("np", "_tensors")]
            pm.__dict__["np"], pm.__dict__["_tensors"] = proxy, glue_tensors
            try:
                out = real(ms, asm, fr, st)
            finally:
                for k, v in saved:
                    pm.__dict__[k] = v
            for m, (o0, f0) in zip(ms, keep):
                if len(m.orientations) != len(o0) or any(a is not b for a, b in zip(m.orientations, o0)) or \
                   len(m.fractions) != len(f0) or any(a is not b for a, b in zip(m.fractions, f0)):
                    raise TranslatorUnsupported("voigt_averages replaces snapshots of its minerals")
            if st.olivine is not S_ol or st.enstatite is not S_en:
                raise TranslatorUnsupported("voigt_averages rebinds the stiffness attributes")
            return out
        return voigt

    def register(name, assemblage, nphi, layout):
        params = [(f"ph{k}", "enum", None) for k in range(len(layout))]
        params += [("phis", "arr", (nphi,)), ("S_ol", "arr", (6, 6)), ("S_en", "arr", (6, 6))]
        for k, (n_attr, nos, nfs, g) in enumerate(layout):
            params += [(f"O{k}", "arr", (max(nos, 1), g, 3, 3)), (f"F{k}", "arr", (max(nfs, 1), g))]
        fn = mk(assemblage, nphi, layout)
        ad.__dict__[name] = fn
        tr.orig[name] = fn
        tr.specs[name] = Spec(ad, name, params, cname="k_" + name)
        tr.specs[name].ret_hint = ("arr", (max([nos for _, nos, _, _ in layout] + [1]), 6, 6))
        return name

    names = []
    for tag, asm in VOIGT_ASSEMBLAGES.items():
        for nm, ns, ng in VOIGT_SIZES + (VOIGT_SIZES_A0 if tag == "0" else ()):
            names.append(register(f"voigt_a{tag}_m{nm}_s{ns}_g{ng}", asm, len(asm), [(ng, ns, ns, ng)] * nm))
    # fewer fractions than phases
    names.append(register("voigt_a01_m2_s1_g1_f1", (0, 1), 1, [(1, 1, 1, 1)] * 2))
    # validation branches (two minerals, assemblage (olivine, enstatite))
    names.append(register("voigt_bad_ngrains", (0, 1), 2, [(1, 1, 1, 1), (2, 1, 1, 2)]))
    names.append(register("voigt_bad_osteps", (0, 1), 2, [(1, 1, 1, 1), (1, 2, 1, 1)]))
    names.append(register("voigt_bad_fsteps", (0, 1), 2, [(1, 1, 1, 1), (1, 1, 2, 1)]))
    names.append(register("voigt_bad_fsteps_first", (0,), 1, [(1, 1, 2, 1)]))
    names.append(register("voigt_no_minerals", (0,), 1, []))
    names.append(register("voigt_ngrains_attr_larger", (0,), 1, [(2, 1, 1, 1)]))

    quiet = [(h, h.level) for h in plog.LOGGER.handlers]
    try:
        for h, _ in quiet:
            h.setLevel(logging.CRITICAL)
        for nm in names:
            tr.ensure(nm, {})
    finally:
        for h, lvl in quiet:
            h.setLevel(lvl)
    return tr, pm.__file__


def translations():
    import os as _os
    import srcguard as _srcguard
    _srcguard.guard_from_baseline("specs_tensors_glue", _os.environ.get("PYDREX_REPO", "/repo"))   # fail closed on new block-size-like integers
    import pydrex.tensors as tensors
    vt, vsrc = voigt_translation()
    return [("Gen_polar", polar_translation(tensors), tensors.__file__), ("Gen_voigt", vt, vsrc)]
