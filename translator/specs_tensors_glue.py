"""Translator specs for the LAPACK / Python *glue* of the tensors group (tie T for C10, C11, C12).

Kept apart from specs_tensors.py (the numeric kernels) so that each module fails closed on its own.

Gen_polar.v    <-  pydrex.tensors.polar_decompose, both variants, traced from the real function over an
                   SVD *oracle*:

  k_polar_decompose_left  matrix U S Vh : (arr * arr)       = polar_decompose(matrix, True)
  k_polar_decompose_right matrix U S Vh : res (arr * arr)   = polar_decompose(matrix, False)

  `np.linalg.svd(<3x3>)` becomes the three symbolic parameters (U, S, Vh); the translator checks
  structurally that svd is applied to the function's own `matrix` argument, at most once, and fails
  closed otherwise (the hypotheses `M = U diag(S) Vh`, ... of the theorems are about that matrix).
  `np.linalg.inv(<3x3>)` is adjugate / determinant and raises LinAlgError (a ValueError) when the
  determinant is exactly 0, as `Model_decomp.inv3`.  `A @ B` (3x3) is sum_k A[i,k] B[k,j], left to
  right; `np.diag`, `.transpose()`, `np.eye`, `.astype(float64)` are the obvious array operations.
  NumPy semantics added for this live in `TArr` / `PolarLinalg` / `PolarProxy` below (subclasses of
  the shared classes; nothing in symtrace.py changes).
"""
from __future__ import annotations

import types

import numpy as _np

from symtrace import (CONST, Cond, ProxyLinalg, ProxyNumpy, SArr, Spec, Translation,
                      TranslatorUnsupported, _obj, lift)


# ---------------------------------------------------------------------------------------
# array semantics used by the LAPACK glue
# ---------------------------------------------------------------------------------------
class TArr(SArr):
    """object ndarray with `@` (3x3)"""

    def __matmul__(self, o):
        a = _np.asarray(self, dtype=object)
        b = _np.asarray(o, dtype=object)
        if a.shape != (3, 3) or b.shape != (3, 3):
            raise TranslatorUnsupported("@ other than 3x3 @ 3x3")
        out = _np.empty((3, 3), dtype=object).view(TArr)
        for i in range(3):
            for j in range(3):
                out[i, j] = a[i, 0] * b[0, j] + a[i, 1] * b[1, j] + a[i, 2] * b[2, j]
        return out

    def __rmatmul__(self, o):
        return _tarr(o).__matmul__(self)


def _tarr(a):
    return _obj(a).view(TArr)


class SvdOracle:
    """state of ONE traced call: the matrix the function was given and the oracle's outputs"""

    def __init__(self):
        self.matrix = self.out = None
        self.used = 0


class PolarLinalg(ProxyLinalg):
    def __init__(self, orc):
        self.orc = orc

    def svd(self, m, *a, **kw):
        orc = self.orc
        if a or kw:
            raise TranslatorUnsupported("np.linalg.svd with options")
        if orc.matrix is None:
            raise TranslatorUnsupported("np.linalg.svd outside polar_decompose")
        m = _obj(m)
        if m.shape != (3, 3):
            raise TranslatorUnsupported("svd of a non 3x3 array")
        for i in range(3):
            for j in range(3):
                if m[i, j] is not orc.matrix[i, j]:
                    raise TranslatorUnsupported(
                        "np.linalg.svd is not applied to the argument `matrix` (entry %d,%d): the oracle "
                        "hypothesis M = U diag(S) Vh of the polar theorems would mean something else" % (i, j))
        orc.used += 1
        if orc.used > 1:
            raise TranslatorUnsupported("np.linalg.svd called more than once")
        U, S, Vh = orc.out
        return U.copy().view(TArr), S.copy().view(TArr), Vh.copy().view(TArr)

    def inv(self, m):
        m = _obj(m)
        if m.shape != (3, 3):
            raise TranslatorUnsupported("inv of a non 3x3 array")
        d = self.det(m)
        if bool(Cond("eq", lift(d), CONST(0))):
            raise _np.linalg.LinAlgError("Singular matrix")       # a ValueError
        out = _np.empty((3, 3), dtype=object).view(TArr)
        adj = [[m[1, 1] * m[2, 2] - m[1, 2] * m[2, 1], m[0, 2] * m[2, 1] - m[0, 1] * m[2, 2],
                m[0, 1] * m[1, 2] - m[0, 2] * m[1, 1]],
               [m[1, 2] * m[2, 0] - m[1, 0] * m[2, 2], m[0, 0] * m[2, 2] - m[0, 2] * m[2, 0],
                m[0, 2] * m[1, 0] - m[0, 0] * m[1, 2]],
               [m[1, 0] * m[2, 1] - m[1, 1] * m[2, 0], m[0, 1] * m[2, 0] - m[0, 0] * m[2, 1],
                m[0, 0] * m[1, 1] - m[0, 1] * m[1, 0]]]
        for i in range(3):
            for j in range(3):
                out[i, j] = adj[i][j] / d
        return out


class PolarProxy(ProxyNumpy):
    def __init__(self, orc):
        super().__init__()
        self.linalg = PolarLinalg(orc)

    def diag(self, v):
        return super().diag(v).view(TArr)

    def eye(self, n, *a, **kw):
        if a or kw:
            raise TranslatorUnsupported("np.eye with options")
        return super().eye(n).view(TArr)


def polar_translation(tensors):
    """Gen_polar: the two variants of polar_decompose over the SVD oracle"""
    real = tensors.__dict__["polar_decompose"]
    real = getattr(real, "py_func", real)
    ad = types.ModuleType("pydrex_tensors_adapters")
    ad.np = None
    tr = Translation(ad, [])
    orc = SvdOracle()
    tr.proxy = PolarProxy(orc)
    tr.header_extra = "(* polar_decompose over the SVD oracle (U, S, Vh) = np.linalg.svd(matrix) *)\n"

    def mk(left):
        def polar(matrix, U, S, Vh):
            orc.matrix, orc.out, orc.used = matrix, (U, S, Vh), 0
            try:
                out = real(matrix.view(TArr), left)
            finally:
                orc.matrix = orc.out = None
            # a path that returns without consulting the SVD is traced like any other: the instance lemmas
            # Inst_tensors.polar_left_inst / polar_right_inst then no longer hold (used <= 1 is checked in svd)
            if not (isinstance(out, tuple) and len(out) == 2):
                raise TranslatorUnsupported("polar_decompose does not return two values")
            return out
        return polar

    params = [("matrix", "arr", (3, 3)), ("U", "arr", (3, 3)), ("S", "arr", (3,)), ("Vh", "arr", (3, 3))]
    for nm, left in (("polar_decompose_left", True), ("polar_decompose_right", False)):
        fn = mk(left)
        ad.__dict__[nm] = fn
        tr.orig[nm] = fn
        tr.specs[nm] = Spec(ad, nm, params, cname="k_" + nm)
    saved = tensors.__dict__["np"]
    try:
        tensors.__dict__["np"] = tr.proxy
        for nm in ("polar_decompose_left", "polar_decompose_right"):
            tr.ensure(nm, {})
    finally:
        tensors.__dict__["np"] = saved
    return tr


def translations():
    import pydrex.tensors as tensors
    return [("Gen_polar", polar_translation(tensors), tensors.__file__)]
