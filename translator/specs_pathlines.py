"""Translator specs for pydrex.pathlines (tie T for C18).

Gen_pathlines.v  <-  pydrex/pathlines.py, regenerated from the current source on every run:

  k_is_inside_n{n} point min_coords max_coords              = _is_inside (n = 1, 2, 3): 1 / 0
  k_is_inside_n{a}_{b}_{c} ...                              = the same with sizes (a, b, c) that differ:
                                                              the assertion fires on every path (Err AssertionError)
  k_ivp_func_n{n} time point get_velocity get_velocity_gradient min_coords max_coords
  k_ivp_jac_n{n}  time point get_velocity get_velocity_gradient min_coords max_coords
        = _ivp_func / _ivp_jac with the two user callables as ORACLE function parameters
          (`arr F -> res (arr F)`): the generated code shows on which paths a callable is applied, to
          which point, and what is done with what it returns.  The callables are always applied as
          f(np.nan, point); anything else in the time slot fails closed.
  k_terminate_n{n} t_prev strain time point get_velocity get_velocity_gradient eigmax min_coords max_coords
        = ONE call of the terminal-event closure `_terminate` of get_pathline, as a function of the two
          `nonlocal` variables it keeps between calls: returns (t_prev', strain', returned value).
          `_utils.strain_increment(dt, G)` stays a call of Gen_velocity_utils.k_strain_increment with the
          eigenvalue oracle `eigmax G` (an infallible function parameter; the structural check that
          eigvalsh is applied to (G + G^T)/2 is made where k_strain_increment is generated).
  k_request_n{n} final_location min_coords max_coords max_strain
  k_request_kw_n{n} final_location min_coords max_coords max_strain atol rtol first_step max_step
        = everything get_pathline hands to scipy.integrate.solve_ivp, as a flat vector (layout: REQUEST_LAYOUT),
          without / with the optional keyword arguments (the `_kw` variant is called with method="Radau",
          symbolic atol / rtol / first_step / max_step AND the four keyword arguments the docstring calls
          illegal -- events, jac, dense_output, args -- which must be dropped with one warning each).
  k_post_m{m}_none t,  k_post_m{m}_s{k} t
        = the time stamps get_pathline returns when solve_ivp's `path.t` is the symbolic vector t of length
          m, for regular_steps = None / k.  The adapter checks that the second returned object IS path.sol.

How the closures are obtained (nothing in /repo is edited or re-implemented): `si` of pydrex.pathlines
is replaced, while one path is traced, by a namespace whose only attribute is a stand-in `solve_ivp`
that records its arguments and either aborts (request, event) or returns a fake result object with the
two attributes `t` (symbolic) and `sol` (a sentinel; calling it is allowed -- the log line does).
The state of the event closure is reached through its closure cells: the numeric free variables of the
captured callable; the one that depends on `max_strain` after set-up is the strain, the one holding a
constant the previous time (their initial values are entries 19 / 20 of the request vector).  Other
shapes (more / fewer numeric cells) fail closed.
Module-level names of pydrex.pathlines rebound while tracing (restored afterwards): np, si, _utils, _log,
_is_inside (-> call of the generated k_is_inside_*).

NumPy semantics added here (PathProxy, subclass of the shared ProxyNumpy; symtrace.py unchanged):
  np.any of comparisons = one compound decision  negb (andb (negb c0) (andb ...));
  np.zeros_like;  np.linspace(a, b, num) = [a + i * ((b - a) / (num - 1)) for i < num - 1] ++ [b]
  (num = 1: [a]); NumPy's `step == 0` special case computes the same real numbers and is not forked on.
emit_coq.py: one additive clause (parameter kind "fun").
"""
from __future__ import annotations

import math
import types

import numpy as _np

from symtrace import (CONST, CallNode, Cond, Node, ProxyNumpy, SArr, Spec, TRACER, Translation,
                      TranslatorUnsupported, _calls, _leaves, _mk_callouts, _obj, _ret_shape, lift)

SIZES = (1, 2, 3)
MISMATCH = ((3, 3, 2), (3, 2, 3), (2, 3, 3))
EVENT_SIZES = (3,)
POST_M = (1, 2, 3)
POST_STEPS = (0, 1, 2, 3)
METHODS = ("RK45", "RK23", "DOP853", "Radau", "BDF", "LSODA")   # ordinals of solve_ivp's `method`

# layout of the request vector for dimension n (see k_request_n{n})
REQUEST_LAYOUT = ("t_span[0]", "t_span[1]", "len(t_span)", "y0[0..n-1]", "atol", "rtol", "method ordinal",
                  "len(events)", "events[0].terminal", "events[0].direction (0: not set)", "dense_output",
                  "fun is _ivp_func", "jac is _ivp_jac", "args == (get_velocity, get_velocity_gradient, min_coords, max_coords)",
                  "first_step (0: not passed)", "max_step (0: not passed)", "number of other keyword arguments",
                  "event state: previous time", "event state: strain", "warnings logged")


class PathProxy(ProxyNumpy):
    def any(self, x):
        conds = []
        for e in _np.asarray(x, dtype=object).reshape(-1):
            if isinstance(e, Cond):
                sv = e.static_value()
                if sv is None:
                    conds.append(e)
                elif sv:
                    return True
            elif isinstance(e, (bool, _np.bool_)):
                if e:
                    return True
            else:
                raise TranslatorUnsupported("np.any of non-boolean entries")
        if not conds:
            return False
        if len(conds) == 1:
            return bool(conds[0])
        return bool(Cond("all", tuple(c.negate() for c in conds), None, True))

    def zeros_like(self, x, dtype=None):
        if dtype is not None:
            raise TranslatorUnsupported("zeros_like with a dtype")
        return self.zeros(_np.shape(x))

    def linspace(self, start, stop, num=50, **kw):
        if kw:
            raise TranslatorUnsupported("np.linspace with keyword arguments")
        if isinstance(num, bool) or not isinstance(num, (int, _np.integer)) or num < 1:
            raise TranslatorUnsupported(f"np.linspace with num = {num!r}")
        a, b = lift(start), lift(stop)
        out = _np.empty(int(num), dtype=object).view(SArr)
        if num == 1:
            out[0] = a
            return out
        step = (b - a) / (int(num) - 1)
        for i in range(int(num) - 1):
            out[i] = a + i * step
        out[int(num) - 1] = b
        return out


class _Closed:
    """namespace standing for a module: only the listed names exist"""

    def __init__(self, what, **names):
        self.__dict__["_what"] = what
        self.__dict__.update(names)

    def __getattr__(self, name):
        raise TranslatorUnsupported(f"{self._what}.{name} is not modelled by the pathlines translator")


class _Captured(Exception):
    pass


class PathTranslation(Translation):
    """Translation with (1) the parameter kind "fun" (an oracle callable: the Python object handed to the
    traced function is built by `self.fun_factories[name]()`), (2) functions all of whose paths raise
    (the size assertion of _is_inside): the return shape is then taken from `self.default_ret`."""

    fun_factories: dict = {}
    default_ret: dict = {}

    def _make_args(self, spec, statics, perm):
        plain = [(n, k, i) for n, k, i in spec.params if k != "fun"]
        vals = iter(Translation._make_args(self, Spec(spec.module, spec.pyname, plain), statics, perm))
        return [self.fun_factories[n]() if k == "fun" else next(vals) for n, k, _ in spec.params]

    def _trace(self, d):
        spec = d["spec"]
        trees = {None: self._trace_paths(d, None)}
        d["trees"] = trees
        ret, fallible = None, False
        for leaf in _leaves(trees[None]):
            if leaf[0] == "ret":
                r = _ret_shape(leaf[1])
                if ret is None:
                    ret = r
                elif ret != r:
                    raise TranslatorUnsupported(f"{spec.pyname}: return shape differs between paths: {ret} vs {r}")
            else:
                fallible = True
        for c in _calls(trees[None]):
            if c.sig["fallible"]:
                fallible = True
        if ret is None:
            ret = self.default_ret.get(spec.pyname)
            if ret is None:
                raise TranslatorUnsupported(f"{spec.pyname}: no path returns")
        d["ret"], d["fallible"] = ret, fallible


def oracle_call(name, args, ret, fallible):
    """an application of the oracle callable `name` (a "fun" parameter of the function being traced)"""
    if TRACER.cur is None:
        raise TranslatorUnsupported(f"oracle callable {name} applied outside a trace")
    call = TRACER.call_event(CallNode(name, name, args, {"ret": ret, "fallible": fallible}))
    return _mk_callouts(call, ret)


def _is_nan(t):
    return isinstance(t, float) and math.isnan(t)


def mk_user_callable(name, rank):
    """get_velocity / get_velocity_gradient: applied as f(np.nan, point); returns an (n,)*rank array"""
    def factory():
        def f(t, x, *more, **kw):
            if more or kw:
                raise TranslatorUnsupported(f"{name} applied to more than (time, point)")
            if not _is_nan(t):
                raise TranslatorUnsupported(f"{name} is not applied to np.nan in the time slot")
            a = _obj(x)
            if a.ndim != 1:
                raise TranslatorUnsupported(f"{name} applied to a point of shape {a.shape}")
            n = a.shape[0]
            return oracle_call(name, [("arr", list(a.reshape(-1)), (n,))], ("arr", (n,) * rank), True)
        f.oracle_name = name
        return f
    return factory


def mk_eigmax():
    def factory():
        def eigmax(G):
            a = _obj(G)
            return oracle_call("eigmax", [("arr", list(a.reshape(-1)), tuple(a.shape))], ("scalar",), False)
        return eigmax
    return factory


def translations():
    import pydrex.pathlines as P
    import specs_velocity

    S = "scalar"
    utr, uspec = specs_velocity.utils_translation()

    ad = types.ModuleType("pydrex_pathlines_adapters")
    ad.np = None
    tr = PathTranslation(ad, [])
    tr.proxy = PathProxy()
    tr.header_extra = "From PV.gen Require Import Gen_velocity_utils.\n"
    tr.fun_factories = {"get_velocity": mk_user_callable("get_velocity", 1),
                        "get_velocity_gradient": mk_user_callable("get_velocity_gradient", 2),
                        "eigmax": mk_eigmax()}
    tr.default_ret = {}
    proxy = tr.proxy
    FUN = "arr F -> res (arr F)"

    real = {k: P.__dict__[k] for k in ("_is_inside", "_ivp_func", "_ivp_jac", "get_pathline")}

    def register(pyname, fn, params, cname):
        ad.__dict__[pyname] = fn
        tr.orig[pyname] = fn
        tr.specs[pyname] = Spec(ad, pyname, params, cname=cname)

    # ---- what pydrex.pathlines sees as `_is_inside` while another function is traced: a call of the
    #      generated kernel of the right sizes (the stubs are installed in `ad` by the tracer)
    def call_is_inside(point, min_coords, max_coords):
        sizes = (_np.size(point), len(min_coords), len(max_coords))
        name = f"is_inside_n{sizes[0]}" if sizes[0] == sizes[1] == sizes[2] else "is_inside_n%d_%d_%d" % sizes
        if name not in tr.specs:
            raise TranslatorUnsupported(f"_is_inside with sizes {sizes}")
        return ad.__dict__[name](point, min_coords, max_coords)

    state = {"eigmax": None}

    def call_strain_increment(dt, G):
        if state["eigmax"] is None:
            raise TranslatorUnsupported("strain_increment outside the terminal event")
        G = _obj(G)
        e = state["eigmax"](G)
        utr.specs["strain_increment_oracle"] = uspec
        try:
            return utr._stub(uspec)(dt, G, e)
        finally:
            del utr.specs["strain_increment_oracle"]

    # ---- solve_ivp stand-ins
    class Capture:
        def __init__(self, result=None):
            self.calls, self.result = [], result

        def solve_ivp(self, *a, **kw):
            self.calls.append((a, kw))
            if self.result is None:
                raise _Captured()
            return self.result

    class FakeSol:
        def __init__(self):
            self.evaluated_at = []

        def __call__(self, t):
            self.evaluated_at.append(t)
            return None

    class Log:
        def __init__(self):
            self.warnings = 0

        def warning(self, *a, **k):
            self.warnings += 1

        def info(self, *a, **k):
            pass

        debug = info

        def __getattr__(self, name):
            raise TranslatorUnsupported(f"pydrex.logger.{name} is not modelled by the pathlines translator")

    def run_get_pathline(cap, final_location, gv, gg, mn, mx, max_strain, regular_steps=None, **kwargs):
        """the real get_pathline with `si` = cap and a recording logger; returns (result | None, log)"""
        log = Log()
        saved = (P.__dict__["si"], P.__dict__["_log"])
        P.__dict__["si"], P.__dict__["_log"] = _Closed("scipy.integrate", solve_ivp=cap.solve_ivp), log
        try:
            try:
                out = real["get_pathline"](final_location, gv, gg, mn, mx, max_strain, regular_steps, **kwargs)
            except _Captured:
                out = None
        finally:
            P.__dict__["si"], P.__dict__["_log"] = saved
        if len(cap.calls) != 1:
            raise TranslatorUnsupported(f"get_pathline calls solve_ivp {len(cap.calls)} times")
        return out, log

    def event_of(cap):
        a, kw = cap.calls[0]
        evs = kw.get("events")
        if not isinstance(evs, (list, tuple)) or len(evs) != 1 or not callable(evs[0]):
            raise TranslatorUnsupported("events is not a list of one callable")
        return evs[0]

    def state_cells(ev, probe):
        """(cell of the previous time, cell of the strain) of the captured event closure"""
        cells = []
        for name, cell in zip(ev.__code__.co_freevars, ev.__closure__ or ()):
            try:
                v = cell.cell_contents
            except ValueError:
                raise TranslatorUnsupported(f"free variable {name} of the event is unbound at the solve_ivp call")
            if isinstance(v, (Node, int, float)) and not isinstance(v, bool):
                cells.append((name, cell, v))
        const = lambda v: not isinstance(v, Node) or v.is_const          # noqa: E731
        strain = [c for c in cells if not const(c[2])]
        other = [c for c in cells if const(c[2])]
        if len(strain) != 1 or len(other) != 1:
            raise TranslatorUnsupported("the event closure does not keep exactly (previous time, strain) as numeric state: "
                                        + ", ".join(c[0] for c in cells))
        return other[0], strain[0]

    # ================= _is_inside =================
    def mk_is_inside():
        def is_inside_n(point, min_coords, max_coords):
            return real["_is_inside"](point, min_coords, max_coords)
        return is_inside_n

    # ================= _ivp_func / _ivp_jac =================
    def mk_ivp(which):
        def ivp_n(time, point, get_velocity, get_velocity_gradient, min_coords, max_coords):
            return real[which](time, point, get_velocity, get_velocity_gradient, min_coords, max_coords)
        return ivp_n

    # ================= the terminal event =================
    def mk_terminate(n):
        def terminate_n(t_prev, strain, time, point, get_velocity, get_velocity_gradient, eigmax, min_coords, max_coords):
            probe = Node("var", "max_strain_probe")
            cap = Capture()
            run_get_pathline(cap, _obj(_np.zeros(n)), get_velocity, get_velocity_gradient, min_coords, max_coords, probe)
            ev = event_of(cap)
            (_, c_time, _), (_, c_strain, _) = state_cells(ev, probe)
            extra = cap.calls[0][1].get("args", ())
            c_time.cell_contents, c_strain.cell_contents = t_prev, strain
            state["eigmax"] = eigmax
            try:
                val = ev(time, point, *extra)
            finally:
                state["eigmax"] = None
            return lift(c_time.cell_contents), lift(c_strain.cell_contents), lift(val)
        return terminate_n

    # ================= the solver request =================
    def request_vector(n, cap, log, final_location, gv, gg, mn, mx, probe):
        a, kw = cap.calls[0]
        kw = dict(kw)
        if len(a) != 3:
            raise TranslatorUnsupported(f"solve_ivp called with {len(a)} positional arguments")
        fun, t_span, y0 = a
        t_span = [lift(t) for t in t_span]
        y0 = _obj(y0)
        if y0.shape != (n,):
            raise TranslatorUnsupported(f"y0 of shape {y0.shape}")
        method = kw.pop("method", "RK45")
        if method not in METHODS:
            raise TranslatorUnsupported(f"method = {method!r}")
        ev = event_of(cap)
        kw.pop("events")
        (_, _, t0), (_, _, s0) = state_cells(ev, probe)
        direction = getattr(ev, "direction", 0)
        args = kw.pop("args", None)
        args_ok = (isinstance(args, tuple) and len(args) == 4 and args[0] is gv and args[1] is gg
                   and all(isinstance(x, _np.ndarray) and x.shape == y.shape
                           and all(p is q for p, q in zip(x.reshape(-1), y.reshape(-1)))
                           for x, y in ((args[2], mn), (args[3], mx))))
        dense = kw.pop("dense_output", False)
        jac = kw.pop("jac", None)
        atol, rtol = kw.pop("atol", 1e-6), kw.pop("rtol", 1e-3)      # solve_ivp's own defaults
        first_step, max_step = kw.pop("first_step", 0), kw.pop("max_step", 0)
        vec = ([t_span[0], t_span[1], len(t_span)] + list(y0) + [atol, rtol, METHODS.index(method), 1,
               bool(getattr(ev, "terminal", False)), direction, bool(dense is True),
               fun is P.__dict__["_ivp_func"], jac is P.__dict__["_ivp_jac"], bool(args_ok),
               first_step, max_step, len(kw), t0, s0, log.warnings])
        out = _np.empty(len(vec), dtype=object).view(SArr)
        for i, v in enumerate(vec):
            out[i] = lift(int(v) if isinstance(v, bool) else v)
        return out

    def mk_request(n, with_kw):
        def request_n(final_location, min_coords, max_coords, max_strain, *opt):
            gv, gg = tr.fun_factories["get_velocity"](), tr.fun_factories["get_velocity_gradient"]()
            cap = Capture()
            kwargs = {}
            if with_kw:
                atol, rtol, first_step, max_step = opt
                kwargs = dict(atol=atol, rtol=rtol, first_step=first_step, max_step=max_step, method="Radau",
                              events="illegal", jac="illegal", dense_output=False, args=("illegal",))
            _, log = run_get_pathline(cap, final_location, gv, gg, min_coords, max_coords, max_strain, **kwargs)
            return request_vector(n, cap, log, final_location, gv, gg, min_coords, max_coords, max_strain)
        return request_n

    # ================= post-processing =================
    def mk_post(m, steps):
        def post_m(t):
            gv, gg = tr.fun_factories["get_velocity"](), tr.fun_factories["get_velocity_gradient"]()
            sol = FakeSol()
            path = _Closed("the object returned by solve_ivp", t=t.view(SArr), sol=sol)
            cap = Capture(result=path)
            out, _ = run_get_pathline(cap, _obj(_np.zeros(3)), gv, gg, _obj(-_np.ones(3)), _obj(_np.ones(3)),
                                      CONST(1), regular_steps=steps)
            if not (isinstance(out, tuple) and len(out) == 2):
                raise TranslatorUnsupported("get_pathline does not return a pair")
            if out[1] is not sol:
                raise TranslatorUnsupported("the second object returned by get_pathline is not path.sol")
            if not isinstance(out[0], _np.ndarray) or _np.ndim(out[0]) != 1:
                raise TranslatorUnsupported("the first object returned by get_pathline is not a 1-D array")
            return out[0]
        return post_m

    # ---- register everything first, then trace callees before callers
    names = []
    for n in SIZES:
        register(f"is_inside_n{n}", mk_is_inside(),
                 [("point", "arr", (n,)), ("min_coords", "arr", (n,)), ("max_coords", "arr", (n,))], f"k_is_inside_n{n}")
        names.append(f"is_inside_n{n}")
    for (a, b, c) in MISMATCH:
        nm = f"is_inside_n{a}_{b}_{c}"
        register(nm, mk_is_inside(), [("point", "arr", (a,)), ("min_coords", "arr", (b,)), ("max_coords", "arr", (c,))], "k_" + nm)
        tr.default_ret[nm] = ("scalar",)
        names.append(nm)
    for n in SIZES:
        sig = [("time", S, None), ("point", "arr", (n,)), ("get_velocity", "fun", FUN),
               ("get_velocity_gradient", "fun", FUN), ("min_coords", "arr", (n,)), ("max_coords", "arr", (n,))]
        register(f"ivp_func_n{n}", mk_ivp("_ivp_func"), sig, f"k_ivp_func_n{n}")
        register(f"ivp_jac_n{n}", mk_ivp("_ivp_jac"), sig, f"k_ivp_jac_n{n}")
        names += [f"ivp_func_n{n}", f"ivp_jac_n{n}"]
    for n in EVENT_SIZES:
        register(f"terminate_n{n}", mk_terminate(n),
                 [("t_prev", S, None), ("strain", S, None), ("time", S, None), ("point", "arr", (n,)),
                  ("get_velocity", "fun", FUN), ("get_velocity_gradient", "fun", FUN), ("eigmax", "fun", "arr F -> F"),
                  ("min_coords", "arr", (n,)), ("max_coords", "arr", (n,))], f"k_terminate_n{n}")
        names.append(f"terminate_n{n}")
    for n in SIZES:
        base = [("final_location", "arr", (n,)), ("min_coords", "arr", (n,)), ("max_coords", "arr", (n,)), ("max_strain", S, None)]
        register(f"request_n{n}", mk_request(n, False), base, f"k_request_n{n}")
        register(f"request_kw_n{n}", mk_request(n, True),
                 base + [("atol", S, None), ("rtol", S, None), ("first_step", S, None), ("max_step", S, None)], f"k_request_kw_n{n}")
        names += [f"request_n{n}", f"request_kw_n{n}"]
    for m in POST_M:
        register(f"post_m{m}_none", mk_post(m, None), [("t", "arr", (m,))], f"k_post_m{m}_none")
        names.append(f"post_m{m}_none")
        for k in POST_STEPS:
            register(f"post_m{m}_s{k}", mk_post(m, k), [("t", "arr", (m,))], f"k_post_m{m}_s{k}")
            names.append(f"post_m{m}_s{k}")

    rebinding = [(P, "np", proxy), (P, "_is_inside", call_is_inside),
                 (P, "_utils", _Closed("pydrex.utils", strain_increment=call_strain_increment))]
    saved = [(mod, k, mod.__dict__[k]) for mod, k, _ in rebinding]
    try:
        for mod, k, v in rebinding:
            mod.__dict__[k] = v
        for nm in names:
            tr.ensure(nm, {})
    finally:
        for mod, k, v in saved:
            mod.__dict__[k] = v
    return [("Gen_pathlines", tr, P.__file__)]
