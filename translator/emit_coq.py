"""Print traced definitions (trace.Translation) as Gallina over `F : Num`."""
from __future__ import annotations

from fractions import Fraction

from symtrace import Node, Cond, CallNode, Perm, SymInt, TranslatorUnsupported, _leaves
import itertools

BIN = {"add": "+", "sub": "-", "mul": "*", "div": "/"}
UN = {
    "neg": "opp", "abs": "nabs", "sqrt": "nsqrt", "exp": "nexp", "cos": "ncos",
    "sin": "nsin", "acos": "nacos", "atan": "natan",
}


def zlit(z):
    return f"({z})%Z"


def const_expr(fr: Fraction):
    if fr.denominator == 1:
        if fr == 0:
            return "zero"
        if fr == 1:
            return "one"
        return f"(ofZ {zlit(fr.numerator)})"
    return f"(ofZ {zlit(fr.numerator)} / ofZ {zlit(fr.denominator)})"


class FnEmitter:
    def __init__(self, d):
        self.d = d
        self.lines = []
        self.refs = {}
        self.names = {}
        self.callnames = {}
        self.ctr = 0

    # ---------- reference counting over the whole tree
    def count_tree(self, t):
        if t is None:
            return
        if t[0] == "leaf":
            leaf = t[1]
            if leaf[0] == "ret":
                self.count_ret(leaf[1])
        elif t[0] == "dec":
            self.count_cond(t[1])
            self.count_tree(t[2])
            self.count_tree(t[3])
        else:
            for kind, v, *_ in t[1].args:
                if kind == "arr":
                    for e in v:
                        self.count(e)
                elif kind == "scalar":
                    self.count(v)
                elif kind == "perm" and v.node:
                    for e in v.node:
                        self.count(e)
            self.count_tree(t[2])

    def count_ret(self, r):
        if r[0] == "tuple":
            for x in r[1]:
                self.count_ret(x)
        elif r[0] == "arr":
            for e in r[2]:
                self.count(e)
        else:
            self.count(r[1])

    def count_cond(self, c):
        if c.op == "all":
            for x in c.a:
                self.count_cond(x)
        elif c.op == "ieq":
            pass
        else:
            self.count(c.a)
            self.count(c.b)

    def count(self, n):
        self.refs[n.id] = self.refs.get(n.id, 0) + 1
        if self.refs[n.id] == 1:
            for a in n.args:
                if isinstance(a, Node):
                    self.count(a)

    # ---------- expressions
    def shared(self, n):
        return self.refs.get(n.id, 0) > 1 and n.op not in (
            "const", "elt", "var", "pi", "callout")

    def expr(self, n, bound, pre):
        """returns text; appends needed let-bindings to `pre` and names to `bound`"""
        if n.id in bound:
            return bound[n.id]
        txt = self.expr1(n, bound, pre)
        if self.shared(n):
            self.ctr += 1
            nm = f"x{self.ctr}"
            pre.append(f"let {nm} := {txt} in")
            bound[n.id] = nm
            return nm
        return txt

    def expr1(self, n, bound, pre):
        op = n.op
        if op == "const":
            return const_expr(n.args[0])
        if op == "pi":
            return "npi"
        if op == "var":
            return n.args[0]
        if op == "elt":
            return f"({n.args[0]} {n.args[1]}%nat)"
        if op == "callout":
            cid, path, idx = n.args
            base = self.callnames[cid]
            nm = base + "".join(f"_{i}" for i in path)
            return nm if idx < 0 else f"({nm} {idx}%nat)"
        if op in BIN:
            a = self.expr(n.args[0], bound, pre)
            b = self.expr(n.args[1], bound, pre)
            return f"({a} {BIN[op]} {b})"
        if op in UN:
            return f"({UN[op]} {self.expr(n.args[0], bound, pre)})"
        if op == "pow":
            return f"(npow {self.expr(n.args[0], bound, pre)} {self.expr(n.args[1], bound, pre)})"
        if op == "atan2":
            return f"(natan2 {self.expr(n.args[0], bound, pre)} {self.expr(n.args[1], bound, pre)})"
        if op == "ite_nz":
            c = self.expr(n.args[0], bound, pre)
            a = self.expr(n.args[1], bound, pre)
            b = self.expr(n.args[2], bound, pre)
            return f"(if eqb {c} zero then {b} else {a})"
        if op == "ite":
            # (added by the core-glue tie, additive) a per-element selection that is NOT a fork:
            # Node("ite", rel, a, b, t, e) = t if (a rel b) else e, rel in lt/le/eq.  Created only
            # by GlueProxy arrays in specs_minerals.py (ndarray.clip, boolean-mask assignment).
            rel, a, b, t, e = n.args
            f = {"lt": "ltb", "le": "leb", "eq": "eqb"}[rel]
            a = self.expr(a, bound, pre)
            b = self.expr(b, bound, pre)
            t = self.expr(t, bound, pre)
            e = self.expr(e, bound, pre)
            return f"(if {f} {a} {b} then {t} else {e})"
        if op in ("inf", "ninf"):
            raise TranslatorUnsupported("infinite value reached the emitter")
        raise TranslatorUnsupported(f"emit {op}")

    def cond(self, c, bound, pre):
        if c.op == "all":
            parts = [self.cond(x, bound, pre) for x in c.a]
            txt = parts[-1]
            for p in reversed(parts[:-1]):
                txt = f"(andb {p} {txt})"
        elif c.op == "ieq":
            txt = f"(Z.eqb {c.a} {zlit(c.b)})"
        else:
            f = {"lt": "ltb", "le": "leb", "eq": "eqb"}[c.op]
            txt = f"({f} {self.expr(c.a, bound, pre)} {self.expr(c.b, bound, pre)})"
        if c.neg:
            txt = f"(negb {txt})"
        return txt

    def arr_lit(self, elems, bound, pre):
        return "(mk_arr zero [" + "; ".join(self.expr(e, bound, pre) for e in elems) + "])"

    def ret(self, r, bound, pre):
        if r[0] == "tuple":
            return "(" + ", ".join(self.ret(x, bound, pre) for x in r[1]) + ")"
        if r[0] == "arr":
            return self.whole_or_lit(r[2], bound, pre, tuple(r[1]))
        return self.expr(r[1], bound, pre)

    # ---------- trees
    def tree(self, t, bound, ind):
        sp = "  " * ind
        fall = self.d["fallible"]
        out = []
        if t is None:
            raise TranslatorUnsupported("missing branch")
        if t[0] == "leaf":
            leaf = t[1]
            pre = []
            if leaf[0] == "ret":
                v = self.ret(leaf[1], bound, pre)
                txt = f"Ok {v}" if fall else v
            else:
                if not fall:
                    raise TranslatorUnsupported("error leaf in infallible function")
                txt = f"Err {leaf[1]}"
            return [sp + p for p in pre] + [sp + txt]
        if t[0] == "dec":
            pre = []
            c = self.cond(t[1], bound, pre)
            out += [sp + p for p in pre]
            out.append(sp + f"if {c} then")
            out += self.tree(t[2], dict(bound), ind + 1)
            out.append(sp + "else")
            out += self.tree(t[3], dict(bound), ind + 1)
            return out
        # call
        call = t[1]
        pre = []
        args = []
        for kind, v, *rest in call.args:
            if kind == "arr":
                args.append(self.whole_or_lit(v, bound, pre, rest[0]))
            elif kind == "scalar":
                args.append(self.expr(v, bound, pre))
            elif kind == "enum":
                args.append(v.name if isinstance(v, SymInt) else zlit(v))
            elif kind == "perm":
                if v.node:
                    args.append(
                        "(argsort4 (mk_arr zero ["
                        + "; ".join(self.expr(e, bound, pre) for e in v.node)
                        + "]))"
                    )
                else:
                    args.append("P" + "".join(str(i) for i in v.concrete))
            elif kind == "oracle":
                # (added by group diag, additive) a function parameter of the caller passed on by name
                args.append(v)
        self.ctr += 1
        base = f"c{self.ctr}"
        self.callnames[call.id] = base
        pat = self.pattern(call.sig["ret"], base)
        out += [sp + p for p in pre]
        callee_txt = f"{call.cname} " + " ".join(args)
        if call.sig["fallible"]:
            if not fall:
                raise TranslatorUnsupported("fallible callee in infallible function")
            out.append(sp + f"match {callee_txt} with")
            out.append(sp + "| Err e => Err e")
            out.append(sp + f"| Ok {pat} =>")
            out += self.tree(t[2], dict(bound), ind + 1)
            out.append(sp + "end")
        else:
            # (added by the tensors glue tie, additive) `let 'c := t in b` with a VARIABLE pattern is substituted
            # away when Coq elaborates the definition (every use of c becomes a copy of t).  A translation that sets
            # `plain_let_calls` gets a genuine `let c := t in b` for single-name results, so that the shared
            # structure survives in the kernel term; tuple results keep the destructuring form.
            if getattr(self, "plain_let_calls", False) and pat.isidentifier():
                out.append(sp + f"let {pat} := {callee_txt} in")
            else:
                out.append(sp + f"let '{pat} := {callee_txt} in")
            out += self.tree(t[2], dict(bound), ind)
        return out

    def whole_or_lit(self, elems, bound, pre, want_shape=None):
        # a whole parameter array or whole call output passed on unchanged
        e0 = elems[0]
        if e0.op == "elt" and all(
            e.op == "elt" and e.args[0] == e0.args[0] and e.args[1] == i
            for i, e in enumerate(elems)
        ):
            shape = dict((n, i) for n, k, i in self.d["spec"].params if k == "arr").get(e0.args[0])
            if shape is not None and tuple(shape) == tuple(want_shape or ()):
                return e0.args[0]
        if e0.op == "callout" and all(
            e.op == "callout" and e.args[:2] == e0.args[:2] and e.args[2] == i
            for i, e in enumerate(elems)
        ):
            cid, path, _ = e0.args
            from symtrace import CALLOUT_SHAPES
            if CALLOUT_SHAPES.get((cid, path)) == tuple(want_shape or ()):
                return self.callnames[cid] + "".join(f"_{i}" for i in path)
        return self.arr_lit(elems, bound, pre)

    def pattern(self, r, base):
        if r[0] == "tuple":
            return "(" + ", ".join(self.pattern(x, f"{base}_{i}") for i, x in enumerate(r[1])) + ")"
        return base

    # ---------- whole definition
    def type_of(self, r):
        if r[0] == "tuple":
            return "(" + " * ".join(self.type_of(x) for x in r[1]) + ")"
        if r[0] == "arr":
            return "arr F"
        return "F"

    def emit(self):
        d = self.d
        spec = d["spec"]
        for t in d["trees"].values():
            self.count_tree(t)
        params = []
        doc = []
        for name, kind, info in spec.params:
            if kind == "arr":
                params.append(f"({name} : arr F)")
                doc.append(f"{name}: array{tuple(info)}")
            elif kind == "scalar":
                params.append(f"({name} : F)")
            elif kind == "enum":
                params.append(f"({name} : Z)")
            elif kind == "perm4":
                params.append(f"({name} : perm4)")
                self.permname = name
            elif kind == "fun":
                # (added by group `velocity`, additive) an ORACLE callable handed to the function
                # (user callables of pydrex.pathlines, the eigenvalue oracle): `info` is its
                # Gallina type; its applications are ordinary `call` events whose callee name is
                # the parameter name.  Created only by translator/specs_velocity.py.
                params.append(f"({name} : {info})")
            elif kind == "static":
                doc.append(f"{name} = {_show_static(d['statics'][name])} (specialised)")
            elif kind == "oracle":
                # (added by group diag, additive) an external routine (LAPACK) that stays a function
                # parameter of the generated definition; info = its Gallina type.  Calls of it are
                # ordinary call events whose cname is the parameter name (specs_diag.py).
                params.append(f"({name} : {info})")
        rty = self.type_of(d["ret"])
        if d["fallible"]:
            rty = f"res ({rty})"
        out = [f"(* {spec.module.__name__}.{spec.pyname}; " + "; ".join(doc)
               + f"; returns {_show_ret(d['ret'])} *)"]
        out.append(f"Definition {d['cname']} {{F : Num}} " + " ".join(params) + f" : {rty} :=")
        trees = d["trees"]
        if list(trees.keys()) == [None]:
            out += self.tree(trees[None], {}, 1)
        else:
            out.append(f"  match {self.permname} with")
            for perm, t in trees.items():
                out.append("  | P" + "".join(map(str, perm)) + " =>")
                out += self.tree(t, {}, 2)
            out.append("  end")
        out[-1] += "."
        return "\n".join(out)


def _prod(shape):
    p = 1
    for s in shape:
        p *= s
    return p


def _show_static(v):
    import numpy as np
    from symtrace import _fin
    if isinstance(v, np.ndarray):
        return "[" + ", ".join(str(_fin(e)) for e in v.reshape(-1)) + "]"
    return str(v)


def _show_ret(r):
    if r[0] == "tuple":
        return "(" + ", ".join(_show_ret(x) for x in r[1]) + ")"
    if r[0] == "arr":
        return f"array{tuple(r[1])}"
    return "scalar"


HEADER = """(* GENERATED by /verif/translator from the current /repo working tree -- do not edit.
   source: {src}  sha256: {sha} *)
From Coq Require Import ZArith List Bool.
From PV Require Import Num.
Import ListNotations.
Local Open Scope num_scope.

"""


def emit_module(tr, src, sha):
    parts = [HEADER.format(src=src, sha=sha)]
    # (added by the core-glue tie, additive) a translation whose definitions call kernels of
    # another generated module names the extra imports in `tr.header_extra`
    if getattr(tr, "header_extra", None):
        parts.append(tr.header_extra)
    for cname in tr.order:
        fe = FnEmitter(tr.defs[cname])
        fe.plain_let_calls = bool(getattr(tr, "plain_let_calls", False))
        parts.append(fe.emit())
        parts.append("")
    return "\n".join(parts)
