"""Table generator of group `config` (property C19), tie T.

Runs from gen.py on every build.  `translations()` returns [] (nothing goes through the
symbolic tracer); as a side effect it *evaluates the current source* of pydrex.core,
pydrex.mock and pydrex.io exhaustively over the finite domain

    {DefaultParams} + {every subclass of DefaultParams published by pydrex.mock}  x  fields

and writes coq/gen/Gen_tables_params.v:
  * the `value` type (fixed text) used by Model_config.v,
  * the members of MineralPhase / MineralFabric, the non-member attribute names that
    `getattr(MineralPhase, s)` resolves, the velocity-gradient factories,
  * for each class: declared class-body values, values of a fresh instance, values in
    as_dict(), values of cls(**as_dict()), `==` of the two, hash success,
    FrozenInstanceError on assignment to each field,
  * the literal tolerance of the sum-to-one test, read from the AST of
    pydrex.io._parse_config_params, and the literal defaults of the optional [output] /
    [input] keys read from the AST of parse_config / _parse_config_input_common.
Fails closed (exception -> gen.py exits 3 naming specs_params).
"""
from __future__ import annotations

import ast
import dataclasses
import hashlib
import inspect
import math
import os
import sys
import textwrap

REPO = os.environ.get("PYDREX_REPO", "/repo")

PRELUDE = r'''
From Coq Require Import Floats ZArith String List.
Import ListNotations.
Open Scope string_scope.

(* Python / TOML values.  VFloat is Coq's primitive binary64 (bit-exact with the
   implementation); VEnum is a member of an IntEnum; VJunk is a non-enum object obtained
   by `getattr` on an enum class; VOpaque stands for the result of an external routine
   (file loader, path resolution, callable factory, PRNG) applied to modelled arguments. *)
Inductive value :=
| VInt (z : Z) | VFloat (f : float) | VStr (s : string) | VBool (b : bool) | VNone
| VList (l : list value) | VTuple (l : list value) | VTable (kv : list (string * value))
| VEnum (cls name : string) (val : Z)
| VJunk (s : string)
| VOpaque (tag : string) (args : list value).

Record pclass := mk_pclass {
  pc_name : string;
  pc_declared : list (string * value);   (* assignments in the class body (AST) -> value in the class __dict__ *)
  pc_annotated : list string;            (* names annotated in the class body *)
  pc_instance : list (string * value);   (* getattr(cls(), f) for every dataclass field f *)
  pc_asdict : list (string * value);     (* cls().as_dict() *)
  pc_rebuilt : list (string * value);    (* fields of cls( **cls().as_dict()) *)
  pc_roundtrip_eq : bool;                (* cls( **cls().as_dict()) == cls() *)
  pc_hash_ok : bool;                     (* isinstance(hash(cls()), int) *)
  pc_frozen : list (string * bool)       (* setattr(cls(), f, v) raises FrozenInstanceError *)
}.
'''


def _q(s: str) -> str:
    if any(ord(c) > 126 or ord(c) < 32 for c in s):
        raise ValueError(f"non-printable / non-ASCII string in a table: {s!r}")
    return '"' + s.replace('"', '""') + '"'


def coq_float(x: float) -> str:
    if math.isnan(x):
        return "nan"
    if math.isinf(x):
        return "infinity" if x > 0 else "neg_infinity"
    h = float(x).hex()
    return f"({h})" if h.startswith("-") else h


def coq_value(v) -> str:
    import enum
    if isinstance(v, enum.IntEnum):
        return f"VEnum {_q(type(v).__name__)} {_q(v.name)} ({int(v)})"
    if isinstance(v, bool):
        return f"VBool {'true' if v else 'false'}"
    if isinstance(v, int):
        return f"VInt ({v})"
    if isinstance(v, float):
        return f"VFloat {coq_float(v)}"
    if isinstance(v, str):
        return f"VStr {_q(v)}"
    if v is None:
        return "VNone"
    if isinstance(v, tuple):
        return "VTuple [" + "; ".join(coq_value(x) for x in v) + "]"
    if isinstance(v, list):
        return "VList [" + "; ".join(coq_value(x) for x in v) + "]"
    if isinstance(v, dict):
        return "VTable [" + "; ".join(f"({_q(k)}, {coq_value(x)})" for k, x in v.items()) + "]"
    raise TypeError(f"value of unsupported type in a parameter table: {v!r}")


def coq_assoc(pairs) -> str:
    return "[" + ";\n     ".join(f"({_q(k)}, {coq_value(v)})" for k, v in pairs) + "]"


def class_body_names(cls):
    """(assigned names, annotated names) in the class body, from the AST."""
    src = textwrap.dedent(inspect.getsource(cls))
    node = ast.parse(src).body[0]
    assert isinstance(node, ast.ClassDef)
    assigned, annotated = [], []
    for st in node.body:
        if isinstance(st, ast.AnnAssign) and isinstance(st.target, ast.Name):
            annotated.append(st.target.id)
            if st.value is not None:
                assigned.append(st.target.id)
        elif isinstance(st, ast.Assign):
            for t in st.targets:
                if isinstance(t, ast.Name):
                    assigned.append(t.id)
    return assigned, annotated


def class_table(cls, field_names):
    assigned, annotated = class_body_names(cls)
    declared = [(k, vars(cls)[k]) for k in assigned if k in field_names and k in vars(cls)]
    inst = cls()
    fields = [f.name for f in dataclasses.fields(inst)]
    instance = [(k, getattr(inst, k)) for k in fields]
    asd = inst.as_dict()
    rebuilt_obj = cls(**asd)
    rebuilt = [(k, getattr(rebuilt_obj, k)) for k in fields]
    try:
        hash_ok = isinstance(hash(inst), int)
    except TypeError:
        hash_ok = False
    frozen = []
    for k in fields:
        try:
            setattr(inst, k, getattr(inst, k))
            frozen.append((k, False))
        except dataclasses.FrozenInstanceError:
            frozen.append((k, True))
    # a brand new attribute must be refused as well
    try:
        setattr(inst, "not_a_field__", 1)
        frozen.append(("not_a_field__", False))
    except dataclasses.FrozenInstanceError:
        frozen.append(("not_a_field__", True))
    b = lambda x: "true" if x else "false"  # noqa: E731
    return (
        f"mk_pclass {_q(cls.__name__)}\n    {coq_assoc(declared)}\n    "
        + "[" + "; ".join(_q(a) for a in annotated if a in field_names) + "]\n    "
        + f"{coq_assoc(instance)}\n    {coq_assoc(list(asd.items()))}\n    {coq_assoc(rebuilt)}\n    "
        + f"{b(rebuilt_obj == inst)} {b(hash_ok)}\n    "
        + "[" + "; ".join(f"({_q(k)}, {b(v)})" for k, v in frozen) + "]"
    )


def _func_ast(mod, name):
    src = textwrap.dedent(inspect.getsource(getattr(mod, name)))
    return ast.parse(src).body[0]


def sum_tolerance(io):
    """the constants (c, t) of the guard `if np.abs(np.sum(fractions) - t) > c: raise` (or the
    NaN-rejecting spelling `if not np.abs(...) <= c: raise`) of _parse_config_params"""
    fn = _func_ast(io, "_parse_config_params")
    hits = []
    for node in ast.walk(fn):
        if not isinstance(node, ast.If):
            continue
        test = node.test
        if isinstance(test, ast.UnaryOp) and isinstance(test.op, ast.Not):
            test, want = test.operand, ast.LtE
        else:
            want = ast.Gt
        if (isinstance(test, ast.Compare) and len(test.ops) == 1 and isinstance(test.ops[0], want)
                and isinstance(test.comparators[0], ast.Constant)
                and isinstance(test.comparators[0].value, float)
                and "np.sum" in ast.unparse(test.left) and "phase_fractions" in ast.unparse(test.left)
                and ast.unparse(test.left).startswith("np.abs(")
                and any(isinstance(b, ast.Raise) for b in node.body)):
            sub = [n for n in ast.walk(test.left) if isinstance(n, ast.BinOp) and isinstance(n.op, ast.Sub)
                   and isinstance(n.right, ast.Constant)]
            if len(sub) != 1:
                raise ValueError("sum-to-one test: cannot find `np.sum(...) - <target>`")
            hits.append((float(test.comparators[0].value), float(sub[0].right.value)))
    if len(hits) != 1:
        raise ValueError(f"sum-to-one guard `if np.abs(np.sum(phase_fractions) - 1.0) > tol: raise` not found exactly once ({len(hits)})")
    return hits[0]


def get_defaults(io, fname, var):
    """literal defaults d of  <var>[k] = <var>.get(k, d)  statements in function fname"""
    fn = _func_ast(io, fname)
    out = {}
    for node in ast.walk(fn):
        if (isinstance(node, ast.Assign) and len(node.targets) == 1 and isinstance(node.targets[0], ast.Subscript)
                and isinstance(node.targets[0].value, ast.Name) and node.targets[0].value.id == var
                and isinstance(node.targets[0].slice, ast.Constant) and isinstance(node.value, ast.Call)
                and isinstance(node.value.func, ast.Attribute) and node.value.func.attr == "get"
                and isinstance(node.value.func.value, ast.Name) and node.value.func.value.id == var
                and len(node.value.args) == 2 and isinstance(node.value.args[0], ast.Constant)
                and node.value.args[0].value == node.targets[0].slice.value):
            k = node.targets[0].slice.value
            d = node.value.args[1]
            txt = ast.unparse(d)
            if txt == "np.nan":
                val = float("nan")
            elif txt == "np.inf":
                val = float("inf")
            else:
                val = ast.literal_eval(d)
            out[k] = val
    return out


def build_text():
    import enum
    import pydrex.core as core
    import pydrex.io as io
    import pydrex.mock as mock
    import pydrex.velocity as velocity

    field_names = [f.name for f in dataclasses.fields(core.DefaultParams)]
    lines = [PRELUDE]

    def members(E):
        return "[" + "; ".join(f"({_q(m.name)}, {int(m)})" for m in E) + "]"

    lines.append(f"Definition phase_members : list (string * Z) := {members(core.MineralPhase)}%Z.")
    lines.append(f"Definition fabric_members : list (string * Z) := {members(core.MineralFabric)}%Z.")
    # names that getattr(MineralPhase, s) resolves to something that is not a member
    P = core.MineralPhase
    cand = set(dir(P)) | set(dir(type(P)))
    for c in list(P.__mro__) + list(type(P).__mro__):
        cand |= set(vars(c))
    junk = []
    for n in sorted(cand):
        try:
            v = getattr(P, n)
        except AttributeError:
            continue
        if not isinstance(v, P):
            junk.append(n)
    lines.append("Definition phase_attr_junk : list string :=\n  [" + "; ".join(_q(n) for n in junk) + "].")
    vfuncs = [n for n, f in inspect.getmembers(velocity, inspect.isfunction)
              if f.__module__ == velocity.__name__ and not n.startswith("_")]
    lines.append("Definition velocity_factories : list string := [" + "; ".join(_q(n) for n in vfuncs) + "].")
    lines.append("Definition default_field_names : list string := [" + "; ".join(_q(n) for n in field_names) + "].")

    tol, target = sum_tolerance(io)
    lines.append(f"Definition sum_tolerance : float := {coq_float(tol)}.   (* source literal {tol!r} *)")
    lines.append(f"Definition sum_target : float := {coq_float(target)}.")

    out_d = get_defaults(io, "parse_config", "_output")
    in_d = get_defaults(io, "_parse_config_input_common", "_input")
    lines.append(f"Definition output_get_defaults : list (string * value) :=\n    {coq_assoc(sorted(out_d.items()))}.")
    lines.append(f"Definition input_get_defaults : list (string * value) :=\n    {coq_assoc(sorted(in_d.items()))}.")

    lines.append("Definition default_params : pclass :=\n  " + class_table(core.DefaultParams, field_names) + ".")
    presets = [c for _, c in inspect.getmembers(mock, inspect.isclass)
               if issubclass(c, core.DefaultParams) and c is not core.DefaultParams
               and c.__module__ == mock.__name__]
    presets.sort(key=lambda c: inspect.getsourcelines(c)[1])
    if not presets:
        raise ValueError("pydrex.mock publishes no parameter preset")
    lines.append("Definition presets : list pclass :=\n  [ " +
                 ";\n    ".join(class_table(c, field_names) for c in presets) + " ].")
    srcs = [core.__file__, mock.__file__, io.__file__]
    head = "(* GENERATED by translator/specs_params.py -- do not edit.\n" + "".join(
        f"   {os.path.relpath(s, REPO)} sha256 {hashlib.sha256(open(s, 'rb').read()).hexdigest()}\n" for s in srcs) + "*)\n"
    return head + "\n".join(lines) + "\n"


def translations():
    outdir = sys.argv[1] if len(sys.argv) > 1 else os.path.join(
        os.path.dirname(os.path.dirname(os.path.abspath(__file__))), "coq", "gen")
    path = os.path.join(outdir, "Gen_tables_params.v")
    try:
        text = build_text()
    except Exception as e:
        # fail closed: a stale table must not survive a failed regeneration -- replace it by a
        # file that cannot compile (so every dependent obligation is reported as broken)
        msg = f"{type(e).__name__}: {e}".replace("*)", "* )").replace("(*", "( *")
        with open(path, "w") as f:
            f.write("(* GENERATED by translator/specs_params.py: table generation FAILED\n   " + msg + " *)\n"
                    "Definition table_generation_failed : True := 0.\n")
        raise
    if not (os.path.exists(path) and open(path).read() == text):
        with open(path, "w") as f:
            f.write(text)
    return []


if __name__ == "__main__":
    sys.path.insert(0, os.path.join(REPO, "src"))
    print(build_text())
