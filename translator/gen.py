"""Regenerate build/gen/Gen_*.v from the current /repo working tree."""
from __future__ import annotations

import hashlib
import importlib
import os
import sys

os.environ["NUMBA_DISABLE_JIT"] = "1"
REPO = os.environ.get("PYDREX_REPO", "/repo")
sys.path.insert(0, os.path.join(REPO, "src"))
sys.path.insert(0, os.path.dirname(os.path.abspath(__file__)))

import numpy as np  # noqa: E402

import symtrace as T  # noqa: E402
from symtrace import Spec, Translation  # noqa: E402
import emit_coq  # noqa: E402


def sha_of(path):
    return hashlib.sha256(open(path, "rb").read()).hexdigest()


def core_translation():
    import pydrex.core as core

    S = "scalar"
    specs = [
        Spec(core, "get_crss", [("phase", "enum", None), ("fabric", "enum", None)]),
        Spec(core, "_get_slip_invariants",
             [("strain_rate", "arr", (3, 3)), ("orientation", "arr", (3, 3))]),
        Spec(core, "_get_deformation_rate",
             [("phase", "enum", None), ("orientation", "arr", (3, 3)), ("slip_rates", "arr", (4,))]),
        Spec(core, "_get_slip_rate_softest",
             [("deformation_rate", "arr", (3, 3)), ("velocity_gradient", "arr", (3, 3))]),
        Spec(core, "_get_slip_rates_olivine",
             [("invariants", "arr", (4,)), ("slip_indices", "perm4", None),
              ("crss", "static", None), ("deformation_exponent", S, None)]),
        Spec(core, "_get_orientation_change",
             [("orientation", "arr", (3, 3)), ("velocity_gradient", "arr", (3, 3)),
              ("deformation_rate", "arr", (3, 3)), ("slip_rate_softest", S, None)]),
        Spec(core, "_get_strain_energy",
             [("crss", "static", None), ("slip_rates", "arr", (4,)),
              ("slip_indices", "perm4", None), ("slip_rate_softest", S, None),
              ("stress_exponent", S, None), ("deformation_exponent", S, None),
              ("nucleation_efficiency", S, None)]),
        Spec(core, "_get_rotation_and_strain",
             [("phase", "enum", None), ("fabric", "enum", None),
              ("orientation", "arr", (3, 3)), ("strain_rate", "arr", (3, 3)),
              ("velocity_gradient", "arr", (3, 3)), ("stress_exponent", S, None),
              ("deformation_exponent", S, None), ("nucleation_efficiency", S, None)],
             inline=["get_crss"]),
    ]
    tr = Translation(core, specs)
    # get_crss itself is a table (Gen_tables); it is only inlined here.
    tr.trace_all([
        ("_get_slip_invariants", {}),
        ("_get_deformation_rate", {}),
        ("_get_slip_rate_softest", {}),
        ("_get_orientation_change", {}),
        ("_get_rotation_and_strain", {}),
    ])
    # derivatives at n_grains = 1, 2, 3
    for n in (1, 2, 3):
        spec = Spec(core, "derivatives",
                    [("regime", "enum", None), ("phase", "enum", None), ("fabric", "enum", None),
                     ("n_grains", "const", n),
                     ("orientations", "arr", (n, 3, 3)), ("fractions", "arr", (n,)),
                     ("strain_rate", "arr", (3, 3)), ("velocity_gradient", "arr", (3, 3)),
                     ("deformation_gradient_spin", "arr", (3, 3)),
                     ("stress_exponent", S, None), ("deformation_exponent", S, None),
                     ("nucleation_efficiency", S, None), ("gbm_mobility", S, None),
                     ("volume_fraction", S, None)],
                    cname=f"k_derivatives_n{n}")
        tr.specs["derivatives"] = spec
        tr.ensure("derivatives", {})
        del tr.specs["derivatives"]
    return tr, core.__file__


def write_if_changed(path, text):
    if os.path.exists(path) and open(path).read() == text:
        return False
    with open(path, "w") as f:
        f.write(text)
    return True


def main(outdir):
    os.makedirs(outdir, exist_ok=True)
    status = {}
    for name, fn in [("Gen_core", core_translation)]:
        tr, src = fn()
        text = emit_coq.emit_module(tr, os.path.relpath(src, REPO), sha_of(src))
        status[name] = write_if_changed(os.path.join(outdir, name + ".v"), text)
    print(status)


if __name__ == "__main__":
    main(sys.argv[1] if len(sys.argv) > 1 else "/verif/coq/gen")
