"""Regenerate build/gen/Gen_*.v from the current /repo working tree."""
from __future__ import annotations

import glob
import hashlib
import importlib
import json
import os
import sys

os.environ["NUMBA_DISABLE_JIT"] = "1"
REPO = os.environ.get("PYDREX_REPO", "/repo")
sys.path.insert(0, os.path.join(REPO, "src"))
sys.path.insert(0, os.path.dirname(os.path.abspath(__file__)))

import numpy as np  # noqa: E402

import symtrace as T  # noqa: E402
from symtrace import Spec, Translation  # noqa: E402
import emit_coq  # noqa: E402


def sha_of(path):
    return hashlib.sha256(open(path, "rb").read()).hexdigest()


def write_if_changed(path, text):
    if os.path.exists(path) and open(path).read() == text:
        return False
    with open(path, "w") as f:
        f.write(text)
    return True


def main(outdir):
    os.makedirs(outdir, exist_ok=True)
    status = {}
    errors = {}
    only = os.environ.get("GEN_ONLY")
    here = os.path.dirname(os.path.abspath(__file__))
    for path in sorted(glob.glob(os.path.join(here, "specs_*.py"))):
        modname = os.path.basename(path)[:-3]
        if only and modname[len("specs_"):] not in only.split(","):
            continue
        try:
            mod = importlib.import_module(modname)
            for name, tr, src in mod.translations():
                text = emit_coq.emit_module(tr, os.path.relpath(src, REPO), sha_of(src))
                status[name] = write_if_changed(os.path.join(outdir, name + ".v"), text)
        except Exception:  # fail closed, per module
            import traceback
            errors[modname] = traceback.format_exc()
    print(json.dumps({"written": status, "errors": errors}))
    if errors:
        for k, v in errors.items():
            sys.stderr.write(f"--- {k}\n{v}\n")
        sys.exit(3)


if __name__ == "__main__":
    main(sys.argv[1] if len(sys.argv) > 1 else "/verif/coq/gen")
