"""Translator specs for C20 (second module): pydrex.stats.point_density with its counting kernels,
and pydrex.geometry.poles for several orientations.

Gen_density.v  <-  pydrex/stats.py (point_density, _kamb_radius, _kamb_units, kamb_count, schmidt_count,
                   exponential_kamb, linear_inverse_kamb, square_inverse_kamb) and pydrex/geometry.py (poles)

  k_point_density_k{K}_a{0|1}_g{G}_n{N}  x_data y_data z_data sigma w
        = the PUBLIC function point_density(x, y, z, gridsteps=G, weights=w, kernel=<K>, axial=<bool>, σ=sigma)
          (no σ for schmidt_count) executed as it is on N symbolic data vectors; K: 0 kamb_count, 1 schmidt_count,
          2 exponential_kamb, 3 linear_inverse_kamb, 4 square_inverse_kamb.  Returns the three G x G grids.
          The kernels are the real functions of the source, called through SPHERICAL_COUNTING_KERNELS as the
          source does.  `_geo.to_cartesian(<array>, <array>)` and `_geo.lambert_equal_area(<arrays>)` stay CALLS of
          the generated scalar definitions Gen_geometry.k_to_cartesian / k_lambert_equal_area, one per grid point
          (trusted: both functions act elementwise).
  k_poles_batch_{ab}_n{N}  orientations hkl   = poles(orientations (N,3,3), ref_axes="ab", hkl)

NumPy semantics added here (`DensityProxy`, a subclass of specs_geometry.GeoProxy; symtrace.py unchanged):
  np.mgrid[a:b:g*1j, c:d:g*1j]   value = i * ((stop - start) / (g - 1)) + start   (as numpy.lib.index_tricks)
  np.arcsin(x)                    pi/2 - arccos(x)   (Num has no arcsin)
  np.column_stack, np.reshape     NumPy's own on object arrays
  np.dot((n,3), (3,))             row . vector, left to right
  array >= scalar etc.            a mask; mask.astype(float) -> per-element (if .. then 1 else 0) expression;
                                  a[mask] -> FORK per element (the result has a path-dependent length);
                                  a[mask] = scalar -> per-element expression
  ndarray.sum() / .mean()         left fold from 0 (NumPy sums pairwise: rounding only) / sum divided by the length;
                                  the result is a NumPy scalar: dividing it (or by it) never raises
  array /= scalar                 elementwise, never raises (NumPy array semantics)
Scalar Python divisions in the kernels (sigma**2 / (n + sigma**2), 2 / (1 - radius), n / sigma**2, .. / f**2) fork on
a zero denominator as in the shared tracer (ZeroDivisionError -> Err DivZero).
"""
from __future__ import annotations

import types

import numpy as _np

import symtrace as T
from symtrace import (CONST, Cond, Node, SArr, Spec, TRACER, Translation, TranslatorUnsupported, NonFiniteValue,
                      Uninit, cval, lift, _build_tree, _norm_ret, _obj)
import specs_geometry as SG

KERNELS = ("kamb_count", "schmidt_count", "exponential_kamb", "linear_inverse_kamb", "square_inverse_kamb")
# (kernel, axial, gridsteps, number of data)
DENSITY_SIZES = ([(k, a, 2, n) for k in (0, 1, 2) for a in (True, False) for n in (1, 2)]
                 + [(k, True, 3, 1) for k in (0, 1, 2)]
                 + [(k, a, 2, 1) for k in (3, 4) for a in (True, False)])
# (the filtering kernels 3, 4 fork once per (counter, datum): g = 2, n = 2 has 256 paths per definition -- left out)
POLES_BATCH = (("xz", 2), ("xz", 3), ("yx", 2))


def raw(op, *args):
    """a node WITHOUT the literal simplifications of the shared tracer (0 + x, 1 * x, x / 1 ...): the
    generated text then has the same shape as the hand-written model and instance proofs stay syntactic"""
    return Node(op, *[lift(a) for a in args])


def num(x):
    """Python number -> node; negative literals as (opp c), the way the model writes them"""
    if isinstance(x, Node):
        return x
    if isinstance(x, NPF):
        return x.node
    if isinstance(x, (int, float)) and not isinstance(x, bool) and x < 0:
        return raw("neg", CONST(-x))
    return lift(x)


class literal_arithmetic:
    """while active, the arithmetic of symbolic scalars keeps its literal shape: constants are still folded
    (const o const), but 0 + x, x - 0, 1 * x, 0 * x, x / 1, 0 / x are NOT simplified and x ** k is
    x * x * ... * x.  Module-level functions of symtrace are rebound for the duration (and restored)."""

    NAMES = ("add", "sub", "mul", "div", "power")

    def __enter__(self):
        self.saved = {n: getattr(T, n) for n in self.NAMES}
        o_add, o_sub, o_mul, o_div, o_pow = (self.saved[n] for n in self.NAMES)

        def add(a, b):
            if a.is_inf or b.is_inf or (a.is_const and b.is_const):
                return o_add(a, b)
            return Node("add", a, b)

        def sub(a, b):
            if a.is_inf or b.is_inf or (a.is_const and b.is_const):
                return o_sub(a, b)
            return Node("sub", a, b)

        def mul(a, b):
            if a.is_inf or b.is_inf or (a.is_const and b.is_const):
                return o_mul(a, b)
            return Node("mul", a, b)

        def div(a, b):
            if b.is_inf or a.is_inf or (b.is_const and (cval(b) == 0 or a.is_const)):
                return o_div(a, b)
            if b.is_const:
                return Node("div", a, b)
            if TRACER.cur is not None and bool(Cond("eq", b, CONST(0))):
                raise ZeroDivisionError("division by zero")
            return Node("div", a, b)

        def power(a, b):
            if isinstance(b, (int, _np.integer)) and not isinstance(b, bool) and 1 <= int(b) <= 8:
                r = a
                for _ in range(int(b) - 1):
                    r = mul(r, a)
                return r
            if isinstance(b, float) and b.is_integer() and 1 <= b <= 8:
                return power(a, int(b))
            return o_pow(a, b)

        for n, f in zip(self.NAMES, (add, sub, mul, div, power)):
            setattr(T, n, f)
        return self

    def __exit__(self, *exc):
        for n, f in self.saved.items():
            setattr(T, n, f)


class NPF:
    """a NumPy floating scalar (result of ndarray.sum / mean, np.sqrt): arithmetic never raises"""

    def __init__(self, node):
        self.node = lift(node)

    def __sub__(self, o):
        return NPF(raw("sub", self.node, num(o)))

    def __add__(self, o):
        return NPF(raw("add", self.node, num(o)))

    def __truediv__(self, o):
        return NPF(raw("div", self.node, num(o)))

    def __rtruediv__(self, o):
        return NPF(raw("div", num(o), self.node))

    def __mul__(self, o):
        return NPF(raw("mul", self.node, num(o)))

    def __getattr__(self, name):
        raise TranslatorUnsupported(f"numpy scalar: .{name} is not modelled")


class Mask:
    def __init__(self, conds):
        self.conds = list(conds)

    def astype(self, dtype, *a, **k):
        if not (dtype is float or dtype is _np.float64) or a or k:
            raise TranslatorUnsupported(f"mask.astype({dtype})")
        out = _np.empty(len(self.conds), dtype=object).view(DArr)
        for i, c in enumerate(self.conds):
            out[i] = _ite(c, CONST(1), CONST(0))
        return out

    def __bool__(self):
        raise TranslatorUnsupported("truth value of a boolean mask")

    def __getattr__(self, name):
        raise TranslatorUnsupported(f"boolean mask: .{name} is not modelled")


def _ite(cond, t, e):
    if cond.op not in ("lt", "le", "eq") or cond.neg:
        raise TranslatorUnsupported("ite on a negated / compound condition")
    return Node("ite", cond.op, cond.a, cond.b, lift(t), lift(e))


class DArr(SArr):
    """object ndarray with the ndarray behaviour point_density and its kernels rely on"""

    def _mask(self, o, op, swap):
        if self.ndim != 1 or isinstance(o, _np.ndarray):
            raise TranslatorUnsupported("array comparison other than 1-D array <op> scalar")
        o = num(o)
        return Mask(Cond(op, o, lift(x)) if swap else Cond(op, lift(x), o) for x in _np.asarray(self, dtype=object))

    def __ge__(self, o):
        return self._mask(o, "le", True)

    def __le__(self, o):
        return self._mask(o, "le", False)

    def __lt__(self, o):
        return self._mask(o, "lt", False)

    def __gt__(self, o):
        return self._mask(o, "lt", True)

    def _nocmp(self, o):
        raise TranslatorUnsupported("array == / != scalar")

    __eq__ = __ne__ = _nocmp
    __hash__ = None

    def __getitem__(self, idx):
        if isinstance(idx, Mask):
            if self.ndim != 1 or len(idx.conds) != self.shape[0]:
                raise TranslatorUnsupported("mask of another length")
            keep = [x for x, c in zip(_np.asarray(self, dtype=object), idx.conds) if bool(c)]   # one fork per element
            out = _np.empty(len(keep), dtype=object).view(DArr)
            for i, x in enumerate(keep):
                out[i] = x
            return out
        return super().__getitem__(idx)

    def __setitem__(self, idx, val):
        if isinstance(val, NPF):
            val = val.node
        if isinstance(idx, Mask):
            if self.ndim != 1 or len(idx.conds) != self.shape[0] or isinstance(val, (_np.ndarray, list, tuple)):
                raise TranslatorUnsupported("a[mask] = <array>")
            base = _np.asarray(self, dtype=object)
            for i, c in enumerate(idx.conds):
                base[i] = _ite(c, num(val), base[i])
            return
        return super().__setitem__(idx, val)

    def sum(self, *a, **k):
        if a or k or self.ndim != 1:
            raise TranslatorUnsupported("sum other than 1-D ndarray.sum()")
        r = CONST(0)
        for x in _np.asarray(self, dtype=object):
            r = raw("add", r, x)
        return NPF(r)

    def mean(self, *a, **k):
        if a or k or self.ndim != 1 or self.shape[0] == 0:
            raise TranslatorUnsupported("mean other than 1-D non-empty ndarray.mean()")
        return NPF(raw("div", self.sum().node, CONST(self.shape[0])))

    def __itruediv__(self, o):
        if not isinstance(o, (NPF, Node)):
            raise TranslatorUnsupported("array /= <non-scalar>")
        base = _np.asarray(self, dtype=object).reshape(-1)
        for i in range(base.size):
            base[i] = raw("div", base[i], num(o))
        return self

    def __truediv__(self, o):
        raise TranslatorUnsupported("array / x (only the in-place form is modelled)")

    def _unsupported(self, *a, **k):
        raise TranslatorUnsupported("ndarray method not modelled by the density translator")

    max = min = cumsum = clip = sort = argsort = std = var = prod = _unsupported


def _darr(a):
    return _obj(a).view(DArr)


class _MGrid:
    def __getitem__(self, key):
        if not (isinstance(key, tuple) and len(key) == 2 and all(isinstance(s, slice) for s in key)):
            raise TranslatorUnsupported("np.mgrid with other than two slices")
        sizes, axes = [], []
        for s in key:
            if not isinstance(s.step, complex) or s.step.real != 0 or int(abs(s.step)) != abs(s.step) or int(abs(s.step)) < 2:
                raise TranslatorUnsupported("np.mgrid step other than <integer >= 2> * 1j")
            g = int(abs(s.step))
            start, stop = num(s.start), num(s.stop)
            step = raw("div", raw("sub", stop, start), CONST(g - 1))
            sizes.append(g)
            axes.append([raw("add", raw("mul", CONST(i), step), start) for i in range(g)])
        out = []
        for ax in range(2):
            a = _np.empty(tuple(sizes), dtype=object).view(DArr)
            for i in range(sizes[0]):
                for j in range(sizes[1]):
                    a[i, j] = axes[ax][(i, j)[ax]]
            out.append(a)
        return out


class DensityProxy(SG.GeoProxy):
    def __init__(self):
        super().__init__()
        self.mgrid = _MGrid()
        self.float64 = float

    def asarray(self, x, dtype=None):
        if isinstance(x, Node):
            return x                      # a 0-d array of one symbolic scalar: used as the scalar it is
        return super().asarray(x, dtype).view(DArr)

    def arcsin(self, x):
        SG._guard(x)
        x = _np.asarray(x, dtype=object)
        out = _np.empty(x.shape, dtype=object).view(DArr)
        o, xi = out.reshape(-1), x.reshape(-1)
        for i in range(xi.size):
            o[i] = raw("sub", raw("div", self.pi, CONST(2)), raw("acos", xi[i]))
        return out

    def column_stack(self, xs):
        for x in xs:
            SG._guard(x)
        return _np.column_stack([_obj(x) for x in xs]).view(DArr)

    def reshape(self, a, shape):
        return _np.reshape(_obj(a), shape).view(DArr)

    def empty(self, shape, dtype=None):
        return super().empty(shape, dtype).view(DArr)

    def dot(self, a, b):
        a, b = _np.asarray(a, dtype=object), _np.asarray(b, dtype=object)
        if a.ndim == 2 and b.ndim == 1 and a.shape[1] == b.shape[0]:
            out = _np.empty(a.shape[0], dtype=object).view(DArr)
            for j in range(a.shape[0]):
                r = None
                for k in range(a.shape[1]):
                    t = raw("mul", a[j, k], b[k])
                    r = t if r is None else raw("add", r, t)
                out[j] = r
            return out
        raise TranslatorUnsupported("np.dot other than (n, 3) . (3,)")

    def abs(self, x):
        r = super().abs(x)
        return r.view(DArr) if isinstance(r, _np.ndarray) else r

    def exp(self, x):
        r = super().exp(x)
        return r.view(DArr) if isinstance(r, _np.ndarray) else r

    def sqrt(self, x):
        if isinstance(x, NPF):
            return NPF(raw("sqrt", x.node))
        r = super().sqrt(x)
        return NPF(r) if isinstance(r, Node) else r


class DensityTranslation(Translation):
    """shared Translation; `_trace_paths` re-stated without the rebinding of sibling kernels (the adapters
    call nothing of the adapter module) -- the rebinding of pydrex.stats.np / _geo is done by translations()"""

    def _trace_paths(self, d, perm):
        spec = d["spec"]
        fn = self.orig[spec.pyname]
        paths = []
        stack = [[]]
        while stack:
            script = stack.pop()
            forced = len(script)
            st = {"script": list(script), "ndec": 0, "memo": {}, "events": [], "calls": {}}
            outer = TRACER.cur
            try:
                TRACER.cur = st
                args = self._make_args(spec, d["statics"], perm)
                originals = [a.copy() if isinstance(a, _np.ndarray) else None for a in args]
                try:
                    out = fn(*args)
                    for (pname, pkind, _), a, a0 in zip(spec.params, args, originals):
                        if a0 is not None and pkind in ("arr", "static"):
                            fa, f0 = a.reshape(-1), a0.reshape(-1)
                            if len(fa) != len(f0) or any(x is not y for x, y in zip(fa, f0)):
                                raise TranslatorUnsupported(
                                    f"{spec.pyname} mutates its array argument `{pname}` in place")
                    leaf = ("ret", _norm_ret(out))
                except TranslatorUnsupported:
                    raise
                except ZeroDivisionError:
                    leaf = ("err", "DivZero")
                except NonFiniteValue:
                    leaf = ("err", "NonFinite")
                except ValueError:
                    leaf = ("err", "ValueError")
                except AssertionError:
                    leaf = ("err", "AssertionError")
                except IndexError:
                    leaf = ("err", "IndexError")
            finally:
                TRACER.cur = outer
            paths.append((st["events"], leaf))
            decs = st["script"]
            for i in range(forced, len(decs)):
                stack.append(decs[:i] + [False])
            if len(paths) > 4000:
                raise TranslatorUnsupported(f"{spec.pyname}: more than 4000 paths")
        return _build_tree(paths)


class _Closed:
    def __init__(self, what, **names):
        self.__dict__["_what"] = what
        self.__dict__.update(names)

    def __getattr__(self, name):
        raise TranslatorUnsupported(f"{self._what}.{name} is not modelled by the density translator")


def translations():
    import os as _os
    import srcguard as _srcguard
    _srcguard.guard_from_baseline("specs_density", _os.environ.get("PYDREX_REPO", "/repo"))   # fail closed on new block-size-like integers
    import pydrex.geometry as geo
    import pydrex.stats as stats

    geo_tr = SG.translations()[0][1]          # the scalar definitions of Gen_geometry (calls stay calls)

    ad = types.ModuleType("pydrex_density_adapters")
    ad.np = None
    tr = DensityTranslation(ad, [])
    proxy = DensityProxy()
    tr.proxy = proxy
    tr.header_extra = "From PV.gen Require Import Gen_geometry.\n"
    names = []

    real_pd = stats.__dict__["point_density"]
    real_poles = geo.__dict__["poles"]

    def scalar_call(pyname, *args):
        d = geo_tr.defs["k_" + pyname]
        geo_tr.specs[pyname] = d["spec"]
        try:
            return geo_tr._stub(d["spec"])(*args)
        finally:
            pass

    def call_to_cartesian(phi, theta, r=1):
        phi, theta = _np.asarray(phi, dtype=object), _np.asarray(theta, dtype=object)
        if phi.ndim != 1 or phi.shape != theta.shape or isinstance(r, _np.ndarray):
            raise TranslatorUnsupported("to_cartesian on other than two 1-D arrays of equal length and a scalar r")
        outs = [scalar_call("to_cartesian", phi[i], theta[i], r) for i in range(phi.shape[0])]
        return tuple(_darr([o[c][0] for o in outs]) for c in range(3))

    def call_lambert(x, y, z):
        x, y, z = (_np.asarray(v, dtype=object) for v in (x, y, z))
        if x.ndim != 1 or x.shape != y.shape or x.shape != z.shape:
            raise TranslatorUnsupported("lambert_equal_area on other than three 1-D arrays of equal length")
        outs = [scalar_call("lambert_equal_area", x[i], y[i], z[i]) for i in range(x.shape[0])]
        return tuple(_darr([o[c][0] for o in outs]) for c in range(2))

    glue_geo = _Closed("pydrex.geometry", to_cartesian=call_to_cartesian, lambert_equal_area=call_lambert)

    def register(pyname, fn, params, cname):
        ad.__dict__[pyname] = fn
        tr.orig[pyname] = fn
        tr.specs[pyname] = Spec(ad, pyname, params, cname=cname)
        names.append(pyname)

    def mk_density(k, axial, g, n):
        def point_density(x_data, y_data, z_data, sigma, w):
            kw = {} if k == 1 else {"σ": sigma}
            out = real_pd(x_data.view(DArr), y_data.view(DArr), z_data.view(DArr), gridsteps=g, weights=w,
                          kernel=KERNELS[k], axial=axial, **kw)
            if not (isinstance(out, tuple) and len(out) == 3 and all(_np.shape(o) == (g, g) for o in out)):
                raise TranslatorUnsupported("point_density does not return three g x g grids")
            return out
        return point_density

    def mk_poles(ax, n):
        def poles(orientations, hkl):
            return real_poles(orientations, ax, hkl)
        return poles

    S = "scalar"
    for (k, axial, g, n) in DENSITY_SIZES:
        nm = f"point_density_k{k}_a{int(axial)}_g{g}_n{n}"
        register(nm, mk_density(k, axial, g, n),
                 [("x_data", "arr", (n,)), ("y_data", "arr", (n,)), ("z_data", "arr", (n,)), ("sigma", S, None), ("w", S, None)],
                 "k_" + nm)
    for ax, n in POLES_BATCH:
        nm = f"poles_batch_{ax}_n{n}"
        register(nm, mk_poles(ax, n), [("orientations", "arr", (n, 3, 3)), ("hkl", "arr", (3,))], "k_" + nm)

    rebinding = [(stats, "np", proxy), (stats, "_geo", glue_geo), (geo, "np", proxy), (geo, "la", SG.ProxyLa())]
    saved = [(mod, key, mod.__dict__[key]) for mod, key, _ in rebinding]
    try:
        for mod, key, v in rebinding:
            mod.__dict__[key] = v
        with literal_arithmetic():
            for nm in names:
                if nm.startswith("point_density"):
                    tr.ensure(nm, {})
        for nm in names:                      # poles: the shared simplifications, as in Gen_geometry.k_poles_<ab>
            if not nm.startswith("point_density"):
                tr.ensure(nm, {})
    finally:
        for mod, key, v in saved:
            mod.__dict__[key] = v
    return [("Gen_density", tr, stats.__file__)]
