"""Fail-closed guards for tie T of group `core` (used by specs_core.py and specs_minerals.py).

The instance lemmas tie the generated fixed-size code to the list-generic models at n_grains = 1, 2, 3 only.
That is sound for code whose behaviour at larger sizes is "the same loop, longer" -- it is NOT for code whose
control flow depends on the size through a block length, a stride or a slice bound (seeded change C03d: a
helper summing in blocks of 128 whose tail slice `[-0:]` is the whole array when n is a multiple of 128; at
n <= 3 the block loop never runs and the generated code is byte-identical to the unchanged one).

Two guards, both raise TranslatorUnsupported (the translator then fails closed, the checks report
`translator failed closed (tie T broken)` and go on to their failing-input search):

  * `literal_guard(path, functions, baseline)`: every integer literal of absolute value > 3 (and every
    module-level integer constant > 3 referenced by name) inside the listed functions must occur exactly as
    often as recorded in `baseline` {function: {literal: count}}.  A new one could be a block size / stride /
    slice bound that n <= 3 never crosses.
  * `UnlistedCallGuard(module, listed)`: while a function is traced, every other module-level function of
    `module` that is not in `listed` is rebound to a stub that raises: a new helper kernel must be added to the
    spec list (so that it is generated, stays a call, and gets its own obligations) instead of being traced
    through silently at n <= 3.
"""
from __future__ import annotations

import ast
import types

from symtrace import TranslatorUnsupported


def _int_literals(fn_node, module_ints):
    found = {}
    for n in ast.walk(fn_node):
        v = None
        if isinstance(n, ast.Constant) and isinstance(n.value, int) and not isinstance(n.value, bool):
            v = n.value
        elif isinstance(n, ast.Name) and isinstance(n.ctx, ast.Load) and n.id in module_ints:
            v = module_ints[n.id]
        if v is not None and abs(v) > 3:
            found[v] = found.get(v, 0) + 1
    return found


def _const_int(node):
    """value of a module-level integer constant written as a literal or as arithmetic on literals (`2**28`, `64 * 1024`, `1 << 20`);
    None for anything else"""
    if node is None:
        return None
    for n in ast.walk(node):
        if not isinstance(n, (ast.Constant, ast.BinOp, ast.UnaryOp, ast.operator, ast.unaryop, ast.Expression)):
            return None
        if isinstance(n, ast.Constant) and (not isinstance(n.value, int) or isinstance(n.value, bool)):
            return None
    try:
        v = eval(compile(ast.Expression(node), "<const>", "eval"), {"__builtins__": {}}, {})  # literals and operators only
    except Exception:  # noqa: BLE001
        return None
    return v if isinstance(v, int) and not isinstance(v, bool) else None


def function_literals(path, functions=None):
    """{function: {literal: count}} of the integer literals of absolute value > 3 (module-level integer constants referenced by
    name included) of the listed functions (all functions and methods of the file when None): what `literal_guard` compares"""
    tree = ast.parse(open(path).read())
    module_ints = {}
    for node in tree.body:
        if isinstance(node, (ast.Assign, ast.AnnAssign)):
            v = _const_int(node.value)
            targets = node.targets if isinstance(node, ast.Assign) else [node.target]
            if v is not None:
                for t in targets:
                    if isinstance(t, ast.Name):
                        module_ints[t.id] = v
    out = {}
    for node in tree.body:
        if isinstance(node, ast.FunctionDef):
            out[node.name] = _int_literals(node, module_ints)
        elif isinstance(node, ast.ClassDef):
            for sub in node.body:
                if isinstance(sub, ast.FunctionDef):
                    out[f"{node.name}.{sub.name}"] = _int_literals(sub, module_ints)
    return out if functions is None else {k: v for k, v in out.items() if k in functions}


def guard_from_baseline(spec_name, repo):
    """literal_guard for every (source file, function) recorded for `spec_name` in translator/literal_baseline.json (written by
    translator/mk_literal_baseline.py from the unchanged tree).  Added after the seeded change C14f: `misorientation_angles`
    processed in blocks sized by a new module-level constant 2**28, the tail dropped by a floor division -- at the traced sizes the
    generated code is unchanged, so the tie did not break.  Loops whose trip count depends on the DATA cannot be validated at the
    small instance sizes: an integer that can act as a block size fails closed here, for the data-sized functions of every group."""
    import json
    import os
    base = json.load(open(os.path.join(os.path.dirname(os.path.abspath(__file__)), "literal_baseline.json"))).get(spec_name, {})
    for rel, fns in base.items():
        literal_guard(os.path.join(repo, rel), list(fns), {f: {int(k): c for k, c in lits.items()} for f, lits in fns.items()})


def literal_guard(path, functions, baseline):
    """functions: names (a method is named `Class.method`); baseline: {name: {literal: count}}"""
    tree = ast.parse(open(path).read())
    module_ints = {}
    for node in tree.body:
        if isinstance(node, (ast.Assign, ast.AnnAssign)):
            val = node.value
            targets = node.targets if isinstance(node, ast.Assign) else [node.target]
            v = _const_int(val)
            if v is not None:
                for t in targets:
                    if isinstance(t, ast.Name):
                        module_ints[t.id] = v
    nodes = {}
    for node in tree.body:
        if isinstance(node, ast.FunctionDef):
            nodes[node.name] = node
        elif isinstance(node, ast.ClassDef):
            for sub in node.body:
                if isinstance(sub, ast.FunctionDef):
                    nodes[f"{node.name}.{sub.name}"] = sub
    for name in functions:
        if name not in nodes:
            raise TranslatorUnsupported(f"{path}: function {name} not found (renamed or removed)")
        got = _int_literals(nodes[name], module_ints)
        want = baseline.get(name, {})
        if got != want:
            new = {k: (want.get(k, 0), got.get(k, 0)) for k in sorted(set(got) | set(want))
                   if want.get(k, 0) != got.get(k, 0)}
            raise TranslatorUnsupported(
                f"{path}: integer literals > 3 in `{name}` changed: now {got}, recorded {want} (literal: (recorded, now) = {new}). "
                "An integer that can act as a block size / stride / slice bound is not crossed by the instance "
                "sizes n_grains = 1, 2, 3: the generic model needs a proof at sizes on both sides of it "
                "(update the model + baseline in translator/specs_*.py after that)")


class UnlistedCallGuard:
    """with UnlistedCallGuard(module, listed): ... -- module-level *functions* of `module` that are not listed
    raise when called (classes / enums / constants are left alone)."""

    def __init__(self, module, listed):
        self.module, self.listed = module, set(listed)
        self.saved = {}

    def __enter__(self):
        mod = self.module
        for name, obj in list(mod.__dict__.items()):
            if name in self.listed or name.startswith("__"):
                continue
            try:                      # numba dispatchers carry the Python function in .py_func
                fn = obj if isinstance(obj, types.FunctionType) else getattr(obj, "py_func", None)
            except Exception:         # noqa: BLE001  (proxies whose __getattr__ raises)
                fn = None
            if isinstance(fn, types.FunctionType) and getattr(fn, "__module__", None) == mod.__name__:
                self.saved[name] = obj
                mod.__dict__[name] = self._stub(name)
        return self

    def _stub(self, name):
        modname = self.module.__name__

        def unlisted(*a, **k):
            raise TranslatorUnsupported(
                f"{modname}.{name} is called from traced code but is not in the translator's spec list: a new "
                "helper kernel is not traced through silently (its loops may depend on the size beyond the "
                "instance sizes n_grains = 1, 2, 3); add a Spec + a model + instance lemmas for it")
        return unlisted

    def __exit__(self, *a):
        for name, obj in self.saved.items():
            self.module.__dict__[name] = obj
