#!/usr/bin/env python3
"""Write translator/literal_baseline.json from the (unchanged) tree: python3 translator/mk_literal_baseline.py [/repo]
{spec module: {source file: {function: {integer literal > 3: count}}}} for the functions whose loops run over DATA-sized
arrays (grain pairs, grains, samples, grid points, minerals): see srcguard.guard_from_baseline."""
import json
import os
import sys

sys.path.insert(0, os.path.dirname(os.path.abspath(__file__)))
os.environ.setdefault("NUMBA_DISABLE_JIT", "1")
import srcguard  # noqa: E402

REPO = sys.argv[1] if len(sys.argv) > 1 else "/repo"
PLAN = {
    "specs_mindex": {"src/pydrex/geometry.py": ["misorientation_angles", "symmetry_operations"],
                     "src/pydrex/stats.py": ["misorientation_hist", "misorientations_random", "_max_misorientation"],
                     "src/pydrex/diagnostics.py": ["misorientation_index", "misorientation_indices"],
                     "src/pydrex/utils.py": ["quat_product"]},
    "specs_stats": {"src/pydrex/stats.py": ["resample_orientations"]},
    "specs_density": {"src/pydrex/stats.py": ["point_density", "_kamb_radius", "_kamb_units", "exponential_kamb", "linear_inverse_kamb",
                                              "square_inverse_kamb", "kamb_count", "schmidt_count"]},
    "specs_diag": {"src/pydrex/stats.py": ["_scatter_matrix"],
                   "src/pydrex/diagnostics.py": ["symmetry_pgr", "coaxial_index", "bingham_average", "finite_strain", "smallest_angle"]},
    "specs_tensors_glue": {"src/pydrex/minerals.py": ["voigt_averages", "StiffnessTensors.__iter__"]},
}
out = {}
for spec, files in PLAN.items():
    for rel, fns in files.items():
        got = srcguard.function_literals(os.path.join(REPO, rel), fns)
        missing = [f for f in fns if f not in got]
        if missing:
            raise SystemExit(f"{rel}: functions not found: {missing}")
        out.setdefault(spec, {})[rel] = {f: {str(k): c for k, c in sorted(got[f].items())} for f in fns}
path = os.path.join(os.path.dirname(os.path.abspath(__file__)), "literal_baseline.json")
json.dump(out, open(path, "w"), indent=1)
print(json.dumps(out))
