"""Translator specs for pydrex.tensors (every numeric kernel; polar_decompose, which is LAPACK glue,
is traced over an SVD oracle by specs_tensors_glue.py)."""
from symtrace import Spec, Translation


def translations():
    import pydrex.tensors as tensors

    M33, M66, V21, T4 = (3, 3), (6, 6), (21,), (3, 3, 3, 3)
    specs = [
        Spec(tensors, "invariants_second_order", [("tensor", "arr", M33)]),
        # upper_tri_to_symmetric is shape-polymorphic: it is inlined in its two callers
        # and emitted stand-alone at the two shapes the package uses (3x3, 6x6)
        Spec(tensors, "upper_tri_to_symmetric", [("tri", "arr", M66)],
             cname="k_upper_tri_to_symmetric_6"),
        Spec(tensors, "voigt_decompose", [("matrix", "arr", M66)],
             inline=["upper_tri_to_symmetric"]),
        Spec(tensors, "mono_project", [("voigt_vector", "arr", V21)]),
        Spec(tensors, "ortho_project", [("voigt_vector", "arr", V21)]),
        Spec(tensors, "tetr_project", [("voigt_vector", "arr", V21)]),
        Spec(tensors, "hex_project", [("voigt_vector", "arr", V21)]),
        Spec(tensors, "voigt_to_elastic_tensor", [("matrix", "arr", M66)]),
        Spec(tensors, "elastic_tensor_to_voigt", [("tensor", "arr", T4)]),
        Spec(tensors, "voigt_matrix_to_vector", [("matrix", "arr", M66)]),
        Spec(tensors, "voigt_vector_to_matrix", [("vector", "arr", V21)],
             inline=["upper_tri_to_symmetric"]),
        Spec(tensors, "rotate", [("tensor", "arr", T4), ("rotation", "arr", M33)]),
    ]
    tr = Translation(tensors, specs)
    tr.trace_all([
        ("invariants_second_order", {}),
        ("upper_tri_to_symmetric", {}),
        ("voigt_decompose", {}),
        ("mono_project", {}),
        ("ortho_project", {}),
        ("tetr_project", {}),
        ("hex_project", {}),
        ("voigt_to_elastic_tensor", {}),
        ("elastic_tensor_to_voigt", {}),
        ("voigt_matrix_to_vector", {}),
        ("voigt_vector_to_matrix", {}),
        ("rotate", {}),
    ])
    # the 3x3 instance of upper_tri_to_symmetric
    spec3 = Spec(tensors, "upper_tri_to_symmetric", [("tri", "arr", M33)],
                 cname="k_upper_tri_to_symmetric_3")
    saved = tr.specs["upper_tri_to_symmetric"]
    tr.specs["upper_tri_to_symmetric"] = spec3
    tr.ensure("upper_tri_to_symmetric", {})
    tr.specs["upper_tri_to_symmetric"] = saved
    return [("Gen_tensors", tr, tensors.__file__)]
