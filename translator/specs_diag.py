"""Translator specs for the C13 group (tie T for the eigenvalue-based diagnostics).

Gen_diag.v  <-  pydrex/stats.py        (_scatter_matrix)
                pydrex/diagnostics.py  (symmetry_pgr, coaxial_index, bingham_average, finite_strain,
                                        smallest_angle)
                pydrex/utils.py        (angle_fse_simpleshear)

The public functions are traced *as they are* (nothing of /repo is edited or re-implemented).  For
n = number of grains in N_GRAINS the following definitions are regenerated on every run:

  k_scatter_matrix_n{n}_r{r} orientations          = pydrex.stats._scatter_matrix(orientations, r), r = 0,1,2
                                                      (the full 3x3 array, zeros above the diagonal)
  k_symmetry_pgr_n{n} eigvalsh axis orientations    = pydrex.diagnostics.symmetry_pgr(orientations, axis)
  k_coaxial_index_n{n} eigvalsh axis1 axis2 os      = pydrex.diagnostics.coaxial_index(os, axis1, axis2)
  k_bingham_average_n{n} eigh axis orientations     = pydrex.diagnostics.bingham_average(orientations, axis)
  k_finite_strain eigh F, k_finite_strain_driver    = pydrex.diagnostics.finite_strain(F) / (F, driver=<any>)
  k_symmetry_pgr_n1_default, k_bingham_average_n1_default, k_coaxial_index_n1_default
                                                    = the same functions called WITHOUT axis arguments
  k_smallest_angle, k_smallest_angle_plane          = pydrex.diagnostics.smallest_angle (numba kernel)
  k_angle_fse_simpleshear strain                    = pydrex.utils.angle_fse_simpleshear(strain)

LAPACK is an ORACLE that stays a *function parameter* of the generated definitions:
  eigvalsh : arr F -> arr F            (3x3 row-major -> the 3 eigenvalues)
  eigh     : arr F -> arr F * arr F    (3x3 row-major -> eigenvalues, 3x3 row-major V whose COLUMNS are the vectors)
The matrix handed to it is therefore part of the generated term (`eigvalsh c1` with
`c1 := k_scatter_matrix_n2_r0 orientations`, `eigh (mk_arr zero [F F^T entries])`), and so is the
element of its result that is used afterwards (`c2 2`, `c2_1 8`, ...).  The instance lemmas of
coq/Proofs_diag_inst.v instantiate the parameter with `fun m => <model oracle> (lower triangle of m)`,
i.e. which matrix, which triangle and which eigenvalue / eigenvector column is a PROOF obligation.
What the translator itself checks (fails closed otherwise): `la.eigvalsh` gets exactly one positional
3x3 argument and no keyword; `la.eigh` likewise except `driver=`, which must be the `driver` argument
of finite_strain passed through (a sentinel object) or its default "ev"; no other attribute of
scipy.linalg except `norm` (2-norm of a 3-vector: sqrt(x0^2 + x1^2 + x2^2), exact).

The axis specifier is a *symbolic string* (`SymStr`): `match axis: case "a": ...` compares it with
string literals through `==`; every comparison forks on `Z.eqb axis <code>` where the code of a string
is its big-endian UTF-8 value minus 97 ("a" -> 0, "b" -> 1, "c" -> 2, "d" -> 3, "A" -> -32, ...), so the
letter -> row mapping and the ValueError for every other string are in the generated term.

NumPy semantics used here (closed proxy `DiagNumpy`; nothing in symtrace.py is changed):
  * array elements, np.sum(..), np.sqrt(..) are NumPy float64 values (`NF`): arithmetic NEVER raises
    (x / 0 is nan or inf with a RuntimeWarning), unlike the shared tracer's Python-scalar division.
    smallest_angle is a numba kernel (error_model "python"): there scalar division by zero DOES raise
    ZeroDivisionError (measured on the compiled function), and the shared forking division is used.
  * np.zeros, np.sum (left to right), np.asarray (identity), np.sqrt, np.arctan, np.arccos, np.rad2deg
    (x * 180 / pi), np.dot of two 3-vectors (left to right), np.clip(x, lo, hi) = min(max(x, lo), hi)
    as an `ite` expression, np.linalg.norm of a 3-vector; `A @ B` (3x3), `.transpose()`, `[::-1]`,
    `[:, -1]`, `[-1]` through ndarray indexing of object arrays.
  * argument mutation: the adapter checks that the array handed to the function holds the same
    objects afterwards (fail closed otherwise).
  * purity: the set of names (globals, builtins, attributes) each function body refers to must be a subset
    of the set it uses today (`want_names`); signatures and default arguments are checked with `inspect`.
    A memo table, `id(..)`, `weakref`, a logger call, another numpy routine: fail closed.
"""
from __future__ import annotations

import inspect
import types

import numpy as _np

import symtrace as T
from symtrace import (CONST, CallNode, Cond, Node, Spec, SymInt, TRACER, Translation,
                      TranslatorUnsupported, cval, lift, _mk_callouts)

N_GRAINS = (1, 2, 3)
EIGVALSH_T = "arr F -> arr F"
EIGH_T = "arr F -> arr F * arr F"
DRIVERS = (None, "ev", "evd", "evr", "evx")


def str_code(s: str) -> int:
    if not isinstance(s, str) or s == "" or "\0" in s:
        raise TranslatorUnsupported(f"axis specifier compared with {s!r}")
    return int.from_bytes(s.encode("utf-8"), "big") - 97


class SymStr(SymInt):
    """a symbolic string: only == / != against string literals (the `match` statement)"""

    def __eq__(self, o):
        if isinstance(o, str):
            return bool(Cond("ieq", self.name, str_code(o)))
        raise TranslatorUnsupported(f"symbolic axis specifier compared with {type(o).__name__}")

    def __ne__(self, o):
        return not self.__eq__(o)

    def __hash__(self):
        raise TranslatorUnsupported("hash of a symbolic axis specifier (dict / set lookup)")

    def __getattr__(self, name):
        raise TranslatorUnsupported(f"str.{name} on a symbolic axis specifier")


# ---------------------------------------------------------------------------------------
# NumPy float64 values
# ---------------------------------------------------------------------------------------
_DIV_RAISES = [False]     # True while a numba kernel is traced


def ite(cond: Cond, t, e):
    sv = cond.static_value()
    if sv is not None:
        return t if sv else e
    if t is e:
        return t
    if cond.neg:
        t, e = e, t
    return Node("ite", cond.op, cond.a, cond.b, t, e)


def _adiv(a, b):
    """a / b without raising (NumPy float64 semantics)"""
    if _DIV_RAISES[0]:
        return T.div(a, b)
    if b.is_const and cval(b) == 0:
        raise TranslatorUnsupported("division by the literal 0")
    if b.is_const or b.is_inf or a.is_inf:
        return T.div(a, b)
    if a.is_const and cval(a) == 0:
        # 0 / x is 0 for x != 0 and nan for x = 0: keep the quotient
        return Node("div", a, b)
    return Node("div", a, b)


def _n(x):
    if isinstance(x, NF):
        return x.n
    if isinstance(x, Node):
        return x
    if isinstance(x, (bool, _np.bool_)):
        raise TranslatorUnsupported("boolean used as a number")
    if isinstance(x, (int, float, _np.floating, _np.integer)):
        return lift(x)
    raise TranslatorUnsupported(f"arithmetic between a float64 value and {type(x).__name__}")


def _binop(f, swap=False):
    def m(self, o):
        if isinstance(o, _np.ndarray):
            return NotImplemented
        a, b = self.n, _n(o)
        return NF(f(b, a) if swap else f(a, b))
    return m


class NF:
    """one NumPy float64 value, symbolic"""
    __slots__ = ("n",)

    def __init__(self, n):
        self.n = n

    __add__ = _binop(T.add)
    __radd__ = _binop(T.add, True)
    __sub__ = _binop(T.sub)
    __rsub__ = _binop(T.sub, True)
    __mul__ = _binop(T.mul)
    __rmul__ = _binop(T.mul, True)
    __truediv__ = _binop(_adiv)
    __rtruediv__ = _binop(_adiv, True)

    def __neg__(self):
        return NF(T.neg(self.n))

    def __pos__(self):
        return self

    def __abs__(self):
        return NF(T.unary("abs", self.n))

    def __pow__(self, k):
        if isinstance(k, (int, _np.integer)) and not isinstance(k, bool) and 0 <= int(k) <= 8:
            return NF(T.power(self.n, int(k)))
        raise TranslatorUnsupported(f"power with exponent {k!r}")

    def _cmp(op, swap=False, neg=False):  # noqa: N805
        def m(self, o):
            if isinstance(o, _np.ndarray):
                return NotImplemented
            a, b = self.n, _n(o)
            if swap:
                a, b = b, a
            return Cond(op, a, b, neg)
        return m

    __lt__ = _cmp("lt")
    __gt__ = _cmp("lt", swap=True)
    __le__ = _cmp("le")
    __ge__ = _cmp("le", swap=True)
    __eq__ = _cmp("eq")
    __ne__ = _cmp("eq", neg=True)
    __hash__ = None

    def __bool__(self):
        raise TranslatorUnsupported("truth value of a float64 value")

    def __float__(self):
        raise TranslatorUnsupported("float() of a symbolic float64 value")

    def __index__(self):
        raise TranslatorUnsupported("a symbolic float64 value used as an index")

    def __repr__(self):
        return f"NF({self.n!r})"


def _fail(what):
    def m(self, *a, **k):
        raise TranslatorUnsupported(f"ndarray.{what} is not modelled by the diagnostics translator")
    return m


class DArr(_np.ndarray):
    """object ndarray of NF values; indexing / slicing / transpose / elementwise arithmetic are
    NumPy's own; reductions and products are given here (or fail closed)"""

    def sum(self, axis=None, **kw):
        if axis is not None or kw:
            raise TranslatorUnsupported("ndarray.sum with arguments")
        return _sum(self)

    def __matmul__(self, o):
        a, b = _np.asarray(self, dtype=object), _np.asarray(o, dtype=object)
        if a.shape != (3, 3) or b.shape != (3, 3):
            raise TranslatorUnsupported("@ other than 3x3 @ 3x3")
        out = _np.empty((3, 3), dtype=object)
        for i in range(3):
            for j in range(3):
                out[i, j] = a[i, 0] * b[0, j] + a[i, 1] * b[1, j] + a[i, 2] * b[2, j]
        return out.view(DArr)

    def __rmatmul__(self, o):
        raise TranslatorUnsupported("<non-array> @ array")

    for _m in ("dot", "mean", "cumsum", "cumprod", "prod", "max", "min", "clip", "argsort", "sort", "trace",
               "round", "std", "var", "argmax", "argmin", "any", "all", "nonzero", "fill", "put", "resize",
               "partition", "argpartition", "searchsorted", "conj", "conjugate", "tolist", "item", "astype",
               "__imatmul__"):
        locals()[_m] = _fail(_m)
    del _m

    # comparisons of whole arrays are not used by the diagnostics
    __lt__ = __le__ = __gt__ = __ge__ = __eq__ = __ne__ = _fail("comparison")
    __hash__ = None


def _darr(shape):
    return _np.empty(shape, dtype=object).view(DArr)


def _sum(x):
    flat = _np.asarray(x, dtype=object).reshape(-1)
    if flat.size == 0:
        raise TranslatorUnsupported("sum of an empty array")
    r = flat[0]
    for e in flat[1:]:
        r = r + e
    return r


def to_nf(a):
    """Node array (tracer argument / call output) -> DArr of fresh NF objects"""
    a = _np.asarray(a, dtype=object)
    out = _darr(a.shape)
    o = out.reshape(-1)
    for i, x in enumerate(a.reshape(-1)):
        if not isinstance(x, Node):
            raise TranslatorUnsupported(f"array element of type {type(x).__name__}")
        o[i] = NF(x)
    return out


def from_nf(x):
    """function result -> what the shared tracer normalises (Nodes, SArr-compatible arrays, tuples)"""
    if isinstance(x, tuple):
        return tuple(from_nf(e) for e in x)
    if isinstance(x, NF):
        return x.n
    if isinstance(x, _np.ndarray):
        if x.dtype != object:
            raise TranslatorUnsupported("a numeric (non-symbolic) array is returned")
        out = _np.empty(x.shape, dtype=object)
        o = out.reshape(-1)
        for i, e in enumerate(_np.asarray(x, dtype=object).reshape(-1)):
            if not isinstance(e, NF):
                raise TranslatorUnsupported(f"returned array holds {type(e).__name__}")
            o[i] = e.n
        return out
    raise TranslatorUnsupported(f"return value of type {type(x).__name__}")


def snapshot(a):
    return list(_np.asarray(a, dtype=object).reshape(-1))


def check_unmutated(fname, pname, a, snap):
    now = list(_np.asarray(a, dtype=object).reshape(-1))
    if len(now) != len(snap) or any(x is not y for x, y in zip(now, snap)):
        raise TranslatorUnsupported(f"{fname} mutates its array argument `{pname}` in place")


# ---------------------------------------------------------------------------------------
# closed numpy
# ---------------------------------------------------------------------------------------
def _elementwise(op):
    def f(self, x, *rest, **kw):
        if rest or kw:
            raise TranslatorUnsupported(f"np.{op} with extra arguments")
        if isinstance(x, _np.ndarray):
            out = _darr(x.shape)
            o, xi = out.reshape(-1), _np.asarray(x, dtype=object).reshape(-1)
            for i in range(xi.size):
                o[i] = NF(T.unary(op, _n(xi[i])))
            return out
        return NF(T.unary(op, _n(x)))
    return f


class _Linalg:
    def __getattr__(self, name):
        raise TranslatorUnsupported(f"numpy.linalg.{name} is not modelled by the diagnostics translator")

    def norm(self, v, *a, **kw):
        return norm3(v, *a, **kw)


def norm3(v, *a, **kw):
    """2-norm of a 3-vector (scipy.linalg.norm / numpy.linalg.norm with default arguments)"""
    if a or kw:
        raise TranslatorUnsupported("norm with ord / axis arguments")
    v = _np.asarray(v, dtype=object)
    if v.shape != (3,):
        raise TranslatorUnsupported(f"norm of an array of shape {v.shape}")
    return NF(T.unary("sqrt", _n(v[0] * v[0] + v[1] * v[1] + v[2] * v[2])))


class DiagNumpy:
    ndarray = _np.ndarray
    float64 = float

    def __init__(self):
        self.linalg = _Linalg()
        self.pi = NF(Node("pi"))

    def __getattr__(self, name):
        raise TranslatorUnsupported(f"numpy.{name} is not modelled by the diagnostics translator")

    def zeros(self, shape, dtype=None):
        if dtype not in (None, float, _np.float64):
            raise TranslatorUnsupported(f"np.zeros with dtype {dtype}")
        out = _darr((shape,) if isinstance(shape, (int, _np.integer)) else tuple(shape))
        o = out.reshape(-1)
        for i in range(o.size):
            o[i] = NF(CONST(0))
        return out

    def sum(self, x, *a, **kw):
        if a or kw:
            raise TranslatorUnsupported("np.sum with axis / keyword arguments")
        if not isinstance(x, _np.ndarray):
            raise TranslatorUnsupported("np.sum of a non-array")
        return _sum(x)

    def asarray(self, x, *a, **kw):
        if a or kw:
            raise TranslatorUnsupported("np.asarray with dtype / order arguments")
        if isinstance(x, (DArr, NF)):
            return x
        raise TranslatorUnsupported(f"np.asarray of {type(x).__name__}")

    sqrt = _elementwise("sqrt")
    arctan = _elementwise("atan")
    arccos = _elementwise("acos")

    def rad2deg(self, x):
        if isinstance(x, _np.ndarray):
            raise TranslatorUnsupported("np.rad2deg of an array")
        # x * 180 / pi; the quotient node is built directly (pi is not 0: no DivZero fork)
        return NF(Node("div", T.mul(_n(x), CONST(180)), Node("pi")))

    def dot(self, a, b):
        a, b = _np.asarray(a, dtype=object), _np.asarray(b, dtype=object)
        if a.shape != (3,) or b.shape != (3,):
            raise TranslatorUnsupported("np.dot of other than two 3-vectors")
        return a[0] * b[0] + a[1] * b[1] + a[2] * b[2]

    def clip(self, x, lo, hi, **kw):
        if kw or isinstance(x, _np.ndarray):
            raise TranslatorUnsupported("np.clip of an array / with keyword arguments")
        x, lo, hi = _n(x), _n(lo), _n(hi)
        x = ite(Cond("lt", x, lo), lo, x)          # maximum(x, lo)
        x = ite(Cond("lt", hi, x), hi, x)          # minimum(., hi)
        return NF(x)


class _Closed:
    def __init__(self, what, **names):
        self.__dict__["_what"] = what
        self.__dict__.update(names)

    def __getattr__(self, name):
        raise TranslatorUnsupported(f"{self._what}.{name} is not modelled by the diagnostics translator")


class OracleParam:
    """placeholder for a function parameter of a generated definition; the source never sees it"""

    def __init__(self, name):
        self.name = name


class DiagTranslation(Translation):
    def _make_args(self, spec, statics, perm):
        shared, special = [], {}
        for i, (name, kind, info) in enumerate(spec.params):
            if kind == "oracle":
                special[i] = OracleParam(name)
            elif kind == "enum":
                special[i] = SymStr(name)
            else:
                shared.append((name, kind, info))
        base = Translation._make_args(self, Spec(spec.module, spec.pyname, shared), statics, perm)
        out, it = [], iter(base)
        for i in range(len(spec.params)):
            out.append(special[i] if i in special else next(it))
        return out


# ---------------------------------------------------------------------------------------
def translations():
    import os as _os
    import srcguard as _srcguard
    _srcguard.guard_from_baseline("specs_diag", _os.environ.get("PYDREX_REPO", "/repo"))   # fail closed on new block-size-like integers
    import pydrex.diagnostics as dg
    import pydrex.stats as stats
    import pydrex.utils as utils

    S = "scalar"
    ad = types.ModuleType("pydrex_diag_adapters")
    ad.np = None
    tr = DiagTranslation(ad, [])
    proxy = DiagNumpy()

    def real(mod, name):
        f = mod.__dict__[name]
        return getattr(f, "py_func", f)

    real_scatter = real(stats, "_scatter_matrix")
    real_pgr = real(dg, "symmetry_pgr")
    real_coaxial = real(dg, "coaxial_index")
    real_bingham = real(dg, "bingham_average")
    real_fse = real(dg, "finite_strain")
    real_angle = real(dg, "smallest_angle")
    real_fse_angle = real(utils, "angle_fse_simpleshear")

    # the argument conventions the generated definitions stand for
    def want_sig(f, names, defaults):
        ps = list(inspect.signature(f).parameters.values())
        if [p.name for p in ps] != names or [p.default for p in ps if p.default is not p.empty] != defaults:
            raise TranslatorUnsupported(
                f"{f.__name__}: signature {[(p.name, p.default) for p in ps]} differs from {names} / defaults {defaults}")

    # every global / builtin / attribute NAME the function bodies refer to; a new name (a module-level
    # table, `id`, `weakref`, a logger, another numpy routine ...) is outside what the generated PURE
    # definitions can express -> fail closed before tracing
    def want_names(f, allowed):
        def names(code):
            out = set(code.co_names)
            for c in code.co_consts:
                if hasattr(c, "co_names"):
                    out |= names(c)
            return out
        extra = sorted(names(f.__code__) - set(allowed))
        if extra or f.__code__.co_freevars:
            raise TranslatorUnsupported(
                f"{f.__name__} refers to names outside the modelled set: {extra} {list(f.__code__.co_freevars)} "
                "(module-level state, object identity, other routines): the generated definitions are pure "
                "functions of the argument values and cannot express them")

    want_names(real_scatter, ["np", "sum", "zeros"])
    want_names(real_pgr, ["ValueError", "_scatter_matrix", "_stats", "eigvalsh", "la", "np", "sum"])
    want_names(real_coaxial, ["symmetry_pgr"])
    want_names(real_bingham, ["ValueError", "_scatter_matrix", "_stats", "asarray", "eigh", "la", "norm", "np"])
    want_names(real_fse, ["eigh", "la", "np", "sqrt", "transpose"])
    want_names(real_angle, ["arccos", "asarray", "clip", "dot", "linalg", "norm", "np", "rad2deg"])
    want_names(real_fse_angle, ["arctan", "np", "rad2deg", "sqrt"])

    want_sig(real_scatter, ["orientations", "row"], [])
    want_sig(real_pgr, ["orientations", "axis"], ["a"])
    want_sig(real_coaxial, ["orientations", "axis1", "axis2"], ["b", "a"])
    want_sig(real_bingham, ["orientations", "axis"], ["a"])
    want_sig(real_fse, ["deformation_gradient", "driver"], ["ev"])
    want_sig(real_angle, ["vector", "axis", "plane"], [None])
    want_sig(real_fse_angle, ["strain"], [])

    def register(pyname, fn, params, cname):
        ad.__dict__[pyname] = fn
        tr.orig[pyname] = fn
        tr.specs[pyname] = Spec(ad, pyname, params, cname=cname)

    # ---- calls between generated definitions (oracle arguments are passed on by name)
    def call_generated(pyname, cargs):
        d = tr.ensure(pyname, {})
        if d.get("pending"):
            raise TranslatorUnsupported(f"recursive call of {pyname}")
        sig = {"ret": d["ret"], "fallible": d["fallible"]}
        call = TRACER.call_event(CallNode(pyname, d["cname"], cargs, sig))
        return _mk_callouts(call, d["ret"])

    def arr_arg(a, shape):
        a = _np.asarray(a, dtype=object)
        if a.shape != tuple(shape):
            raise TranslatorUnsupported(f"array argument of shape {a.shape}, expected {shape}")
        return ("arr", [_n(x) for x in a.reshape(-1)], tuple(shape))

    def axis_arg(axis):
        if isinstance(axis, SymStr):
            return ("enum", axis)
        if isinstance(axis, str):
            return ("enum", str_code(axis))
        raise TranslatorUnsupported(f"axis specifier of type {type(axis).__name__} passed on")

    def grains_of(orientations):
        if not isinstance(orientations, DArr) or orientations.ndim != 3 or orientations.shape[1:] != (3, 3):
            raise TranslatorUnsupported("orientations are not an (n, 3, 3) array")
        n = orientations.shape[0]
        if n not in N_GRAINS:
            raise TranslatorUnsupported(f"{n} grains")
        return n

    def wrap(x):
        if isinstance(x, tuple):
            return tuple(wrap(e) for e in x)
        if isinstance(x, _np.ndarray):
            return to_nf(x)
        return NF(x)

    def call_scatter(orientations, row):
        n = grains_of(orientations)
        if isinstance(row, bool) or not isinstance(row, (int, _np.integer)) or int(row) not in (0, 1, 2):
            raise TranslatorUnsupported(f"_scatter_matrix called with row = {row!r}")
        return wrap(call_generated(f"scatter_matrix_n{n}_r{int(row)}", [arr_arg(orientations, (n, 3, 3))]))

    def call_pgr(orientations, axis="a"):
        n = grains_of(orientations)
        return wrap(call_generated(f"symmetry_pgr_n{n}", [("oracle", "eigvalsh"), axis_arg(axis),
                                                          arr_arg(orientations, (n, 3, 3))]))

    # ---- LAPACK: calls of the oracle parameters
    def oracle_call(name, ret, m):
        if not isinstance(m, _np.ndarray) or m.shape != (3, 3):
            raise TranslatorUnsupported(f"la.{name} is not applied to a 3x3 array")
        call = TRACER.call_event(CallNode(name, name, [arr_arg(m, (3, 3))], {"ret": ret, "fallible": False}))
        return wrap(_mk_callouts(call, ret))

    state = {"allowed": (), "driver": DRIVERS}

    def la_eigvalsh(*a, **kw):
        if "eigvalsh" not in state["allowed"]:
            raise TranslatorUnsupported("la.eigvalsh called by a function that is not given this oracle")
        if len(a) != 1 or kw:
            raise TranslatorUnsupported(f"la.eigvalsh called with arguments {a[1:]} {kw}: the oracle stands for the "
                                        "default call (lower triangle, full spectrum)")
        return oracle_call("eigvalsh", ("arr", (3,)), a[0])

    def la_eigh(*a, **kw):
        if "eigh" not in state["allowed"]:
            raise TranslatorUnsupported("la.eigh called by a function that is not given this oracle")
        extra = {k: v for k, v in kw.items() if k != "driver"}
        if len(a) != 1 or extra:
            raise TranslatorUnsupported(f"la.eigh called with arguments {a[1:]} {extra}: the oracle stands for the "
                                        "default call (lower triangle, full spectrum, eigenvectors)")
        if "driver" in kw and not any(kw["driver"] is d for d in state["driver"]):
            raise TranslatorUnsupported(f"la.eigh called with driver={kw['driver']!r}, not the caller's `driver` argument")
        return oracle_call("eigh", ("tuple", (("arr", (3,)), ("arr", (3, 3)))), a[0])

    glue_la = _Closed("scipy.linalg", eigvalsh=la_eigvalsh, eigh=la_eigh, norm=norm3)
    glue_stats = _Closed("pydrex.stats", _scatter_matrix=call_scatter)

    def run(fname, allowed, arrays, thunk, div_raises=False, driver=DRIVERS):
        """arrays: [(param name, DArr)] checked for mutation"""
        snaps = [(p, a, snapshot(a)) for p, a in arrays]
        old = (state["allowed"], state["driver"], _DIV_RAISES[0])
        state["allowed"], state["driver"], _DIV_RAISES[0] = allowed, driver, div_raises
        try:
            out = thunk()
        finally:
            state["allowed"], state["driver"], _DIV_RAISES[0] = old
        for p, a, s in snaps:
            check_unmutated(fname, p, a, s)
        return from_nf(out)

    # ---- adapters (what the shared tracer calls with its Node arrays)
    def mk_scatter(n, r):
        def scatter_matrix(orientations):
            o = to_nf(orientations)
            return run("_scatter_matrix", (), [("orientations", o)], lambda: real_scatter(o, r))
        return scatter_matrix

    def mk_pgr(n, default=False):
        def symmetry_pgr(eigvalsh, axis, orientations):
            o = to_nf(orientations)
            return run("symmetry_pgr", ("eigvalsh",), [("orientations", o)], lambda: real_pgr(o, axis))

        def symmetry_pgr_default(eigvalsh, orientations):
            o = to_nf(orientations)
            return run("symmetry_pgr", ("eigvalsh",), [("orientations", o)], lambda: real_pgr(o))
        return symmetry_pgr_default if default else symmetry_pgr

    def mk_coaxial(n, default=False):
        def coaxial_index(eigvalsh, axis1, axis2, orientations):
            o = to_nf(orientations)
            return run("coaxial_index", (), [("orientations", o)], lambda: real_coaxial(o, axis1, axis2))

        def coaxial_index_default(eigvalsh, orientations):
            o = to_nf(orientations)
            return run("coaxial_index", (), [("orientations", o)], lambda: real_coaxial(o))
        return coaxial_index_default if default else coaxial_index

    def mk_bingham(n, default=False):
        def bingham_average(eigh, axis, orientations):
            o = to_nf(orientations)
            return run("bingham_average", ("eigh",), [("orientations", o)], lambda: real_bingham(o, axis))

        def bingham_average_default(eigh, orientations):
            o = to_nf(orientations)
            return run("bingham_average", ("eigh",), [("orientations", o)], lambda: real_bingham(o))
        return bingham_average_default if default else bingham_average

    class _Driver:
        def __repr__(self):
            return "<the caller's driver argument>"

    def finite_strain(eigh, deformation_gradient):
        Fm = to_nf(deformation_gradient)
        return run("finite_strain", ("eigh",), [("deformation_gradient", Fm)], lambda: real_fse(Fm), driver=("ev",))

    def finite_strain_driver(eigh, deformation_gradient):
        Fm = to_nf(deformation_gradient)
        drv = _Driver()
        return run("finite_strain", ("eigh",), [("deformation_gradient", Fm)],
                   lambda: real_fse(Fm, driver=drv), driver=(drv,))

    def smallest_angle(vector, axis):
        v, a = to_nf(vector), to_nf(axis)
        return run("smallest_angle", (), [("vector", v), ("axis", a)], lambda: real_angle(v, a), div_raises=True)

    def smallest_angle_plane(vector, axis, plane):
        v, a, p = to_nf(vector), to_nf(axis), to_nf(plane)
        return run("smallest_angle", (), [("vector", v), ("axis", a), ("plane", p)],
                   lambda: real_angle(v, a, p), div_raises=True)

    def angle_fse_simpleshear(strain):
        return run("angle_fse_simpleshear", (), [], lambda: real_fse_angle(NF(strain)))

    names = []
    for n in N_GRAINS:
        O = ("orientations", "arr", (n, 3, 3))
        for r in (0, 1, 2):
            register(f"scatter_matrix_n{n}_r{r}", mk_scatter(n, r), [O], f"k_scatter_matrix_n{n}_r{r}")
            names.append(f"scatter_matrix_n{n}_r{r}")
        register(f"symmetry_pgr_n{n}", mk_pgr(n),
                 [("eigvalsh", "oracle", EIGVALSH_T), ("axis", "enum", None), O], f"k_symmetry_pgr_n{n}")
        register(f"coaxial_index_n{n}", mk_coaxial(n),
                 [("eigvalsh", "oracle", EIGVALSH_T), ("axis1", "enum", None), ("axis2", "enum", None), O],
                 f"k_coaxial_index_n{n}")
        register(f"bingham_average_n{n}", mk_bingham(n),
                 [("eigh", "oracle", EIGH_T), ("axis", "enum", None), O], f"k_bingham_average_n{n}")
        names += [f"symmetry_pgr_n{n}", f"coaxial_index_n{n}", f"bingham_average_n{n}"]
    O1 = ("orientations", "arr", (1, 3, 3))
    register("symmetry_pgr_n1_default", mk_pgr(1, True), [("eigvalsh", "oracle", EIGVALSH_T), O1],
             "k_symmetry_pgr_n1_default")
    register("coaxial_index_n1_default", mk_coaxial(1, True), [("eigvalsh", "oracle", EIGVALSH_T), O1],
             "k_coaxial_index_n1_default")
    register("bingham_average_n1_default", mk_bingham(1, True), [("eigh", "oracle", EIGH_T), O1],
             "k_bingham_average_n1_default")
    FM = ("deformation_gradient", "arr", (3, 3))
    register("finite_strain", finite_strain, [("eigh", "oracle", EIGH_T), FM], "k_finite_strain")
    register("finite_strain_driver", finite_strain_driver, [("eigh", "oracle", EIGH_T), FM], "k_finite_strain_driver")
    V = lambda nm: (nm, "arr", (3,))  # noqa: E731
    register("smallest_angle", smallest_angle, [V("vector"), V("axis")], "k_smallest_angle")
    register("smallest_angle_plane", smallest_angle_plane, [V("vector"), V("axis"), V("plane")],
             "k_smallest_angle_plane")
    register("angle_fse_simpleshear", angle_fse_simpleshear, [("strain", S, None)], "k_angle_fse_simpleshear")
    names += ["symmetry_pgr_n1_default", "coaxial_index_n1_default", "bingham_average_n1_default",
              "finite_strain", "finite_strain_driver", "smallest_angle", "smallest_angle_plane",
              "angle_fse_simpleshear"]

    # the shared tracer replaces every OTHER registered adapter of `ad` by its own call stub while one
    # function is traced; those stubs are never reached (the source calls go through the rebindings below)
    rebinding = [(stats, "np", proxy), (dg, "np", proxy), (utils, "np", proxy),
                 (dg, "la", glue_la), (dg, "_stats", glue_stats), (dg, "symmetry_pgr", call_pgr)]
    saved = [(mod, k, mod.__dict__[k]) for mod, k, _ in rebinding]
    try:
        for mod, k, v in rebinding:
            mod.__dict__[k] = v
        for nm in names:
            tr.ensure(nm, {})
    finally:
        for mod, k, v in saved:
            mod.__dict__[k] = v
    return [("Gen_diag", tr, dg.__file__)]
