"""Translator specs of group `mindex` (property C14), tie T.

coq/gen/Gen_mindex.v  <-  pydrex/utils.py        quat_product
                          pydrex/geometry.py     LatticeSystem, symmetry_operations, misorientation_angles
                          pydrex/stats.py        _max_misorientation, misorientations_random, misorientation_hist
                          pydrex/diagnostics.py  misorientation_index, misorientation_indices

Regenerated from the current source on every build (gen.py imports this module and calls
`translations()`, which writes the file itself and returns []; an exception makes gen.py exit 3
naming `specs_mindex`, i.e. the tie fails closed and Gen_mindex.v keeps its last good content).

What is generated (SYS ranges over the members of LatticeSystem, in definition order):

  k_quat_product q1 q2                       utils.quat_product, symbolic 4-vectors           -> arr(4)
  k_symmetry_operations_SYS                  geometry.symmetry_operations(member): the real function is
                                             EVALUATED for every member (finite domain) with scipy's
                                             Rotation replaced by the symbolic stand-in `RotSym`      -> tuple of arr(4) / arr(16)
  k_misorientation_angles_n{N}_a{A}_b{B}     geometry.misorientation_angles on (N,A,4) x (N,B,4)      -> arr(N)
  g_lattice_table                            [(M, N, theta_max)] per member: LatticeSystem.value and
                                             stats._max_misorientation(member), evaluated
  k_misorientations_random_SYS low high      stats.misorientations_random(low, high, member), symbolic
                                             bin edges: the whole decision tree (ValueError, the four
                                             Grimmer branches per edge, `assert False`)                -> res scalar
  k_misorientation_hist_data_SYS_n{n} quats  stats.misorientation_hist for n grains up to the call of
                                             np.histogram: the DATA handed to np.histogram            -> arr(n(n-1)/2)
  g_hist_params_SYS                          (bins, range lo, range hi, density) of that call
  k_misorientation_index_SYS h               diagnostics.misorientation_index given the histogram h
                                             (theta_max symbolic densities) returned by
                                             misorientation_hist: the theta_max calls of
                                             misorientations_random stay calls                         -> res scalar
  k_misorientation_indices_SYS_l{L}          diagnostics.misorientation_indices over a stack of L
                                             snapshots with a sequential stand-in for the pool         -> res arr(L)

Stand-ins / oracles (each checked structurally, anything else fails closed):
  * scipy Rotation inside geometry.symmetry_operations -> `RotSym`: identity().as_quat() = (0,0,0,1);
    from_rotvec(v).as_quat() for v = t * e_axis, t > 0 a closed expression = (e sin(t/2), cos(t/2)).
    (The harness compares the real scipy values with the extracted table entry by entry.)
  * Rotation.from_matrix(orientations.copy()).as_quat() inside stats.misorientation_hist is the
    ORACLE of the model: its result is the symbolic input `quats`; the stand-in checks that it is
    applied to a copy of the `orientations` argument, once, without arguments.
  * np.histogram: the call is recorded (data, bins, range, density); what it returns is the opaque
    value the function must return unchanged.  Its meaning is Model_mindex.hist_density (tie H).
  * multiprocessing.Pool -> `SeqPool` (context manager; imap = builtin map): the order-preserving
    pool is the oracle hypothesis of the batched theorems, measured at run time.
  * the members of LatticeSystem handed to misorientations_random carry their value (M, N) as exact
    rationals (`fractions.Fraction`), so that Python's int / int (e.g. N / 180) is read as the exact
    quotient p/q and emitted as `ofZ p / ofZ q` -- which the binary64 dictionary of the extracted
    model rounds exactly as Python rounds the int / int division, and which is exact over R.
  * `round(x)` of a closed symbolic expression -> `ofZ (g_round x)`, g_round = Model_mindex.round_upto
    400 0 (nearest integer in [0, 400], half up); the translator evaluates x numerically and fails
    closed unless 0 <= x < 399 and x is not within 1e-6 of a half-integer.
  * np.float32 storage of the operator-multiplied quaternions is ignored (identity over R).
NumPy semantics added here (subclass `MProxy` of the shared ProxyNumpy; nothing in symtrace.py changes):
  np.sum(.., axis=1) (left to right), np.clip (minimum(maximum(x, lo), hi) as `ite` expressions),
  np.min (left fold of Model_mindex.fmin m x = `if x < m then x else m`), np.rad2deg / np.deg2rad with NumPy's association
  x * (180/pi) / x * (pi/180), elementwise on arrays; true division by a symbolic value does NOT fork
  into Err DivZero (every such division in these functions is a NumPy float64 division, which never
  raises): `symtrace.div` is rebound for the duration of these traces only.
"""
from __future__ import annotations

import hashlib
import math
import os
import sys
import types
from fractions import Fraction

import numpy as _np

import symtrace as T
from symtrace import (CONST, Cond, Node, ProxyNumpy, SArr, Spec, Translation,
                      TranslatorUnsupported, cval, lift, _obj)
import emit_coq

REPO = os.environ.get("PYDREX_REPO", "/repo")

# sizes
ANGLE_SIZES = [(1, 1, 1), (1, 1, 2), (1, 2, 1), (1, 2, 2), (1, 2, 3), (1, 3, 2), (2, 2, 2), (3, 1, 1)]
HIST_GRAINS = (2, 3)          # n = 3 only for the members with at most HIST_N3_MAX_OPS operators
HIST_N3_MAX_OPS = 10
STACK_LENGTHS = (1, 2, 3)


# ---------------------------------------------------------------------------------------
# expression helpers
# ---------------------------------------------------------------------------------------
def ite(cond: Cond, t, e):
    """t if cond else e, as an expression (decided statically when possible)."""
    sv = cond.static_value()
    if sv is not None:
        return t if sv else e
    if cond.op not in ("lt", "le", "eq"):
        raise TranslatorUnsupported(f"ite on a {cond.op} condition")
    t, e = lift(t), lift(e)
    if t is e:
        return t
    if cond.neg:
        t, e = e, t
    return Node("ite", cond.op, cond.a, cond.b, t, e)


_shared_div = T.div


def _np_div(a, b):
    """true division that never raises on a symbolic denominator (NumPy float64 semantics)"""
    if b.is_const or b.is_inf or a.is_inf:
        return _shared_div(a, b)
    if a.is_const and cval(a) == 0:
        return CONST(0)
    return Node("div", a, b)


def numeric(n: Node) -> float:
    """binary64 value of a CLOSED expression (used only for the side conditions of the stand-ins)"""
    op, a = n.op, n.args
    if op == "const":
        return float(a[0])
    if op == "pi":
        return math.pi
    f1 = {"neg": lambda x: -x, "abs": abs, "sqrt": math.sqrt, "exp": math.exp, "cos": math.cos,
          "sin": math.sin, "acos": math.acos, "atan": math.atan}
    f2 = {"add": lambda x, y: x + y, "sub": lambda x, y: x - y, "mul": lambda x, y: x * y,
          "div": lambda x, y: x / y}
    if op in f1:
        return f1[op](numeric(a[0]))
    if op in f2:
        return f2[op](numeric(a[0]), numeric(a[1]))
    raise TranslatorUnsupported(f"numeric value of a non-closed expression ({op})")


def _round_node(self, ndigits=None):
    if ndigits is not None:
        raise TranslatorUnsupported("round with ndigits")
    v = numeric(self)
    if not (0 <= v < 399) or abs((v % 1.0) - 0.5) < 1e-6:
        raise TranslatorUnsupported(f"round({v!r}): outside the range of g_round or too close to a tie")
    return Node("round", self)


class MArr(SArr):
    pass


def _marr(a):
    return _obj(a).view(MArr)


class HistResult:
    """what np.histogram returned: opaque, must be returned unchanged by misorientation_hist"""

    def __init__(self, data, bins, rng, density):
        self.data, self.bins, self.range, self.density = data, bins, rng, density


class MProxy(ProxyNumpy):
    float32 = "float32"

    def __init__(self):
        super().__init__()
        self.hist_calls = []
        self.float32_arrays = 0

    def empty(self, shape, dtype=None):
        if dtype not in (None, float, "float32"):
            raise TranslatorUnsupported(f"np.empty with dtype {dtype!r}")
        if dtype == "float32":
            self.float32_arrays += 1
        return super().empty(shape)

    def sum(self, x, axis=None):
        if axis is None:
            return super().sum(x)
        a = _np.asarray(x, dtype=object)
        if a.ndim != 2 or axis != 1:
            raise TranslatorUnsupported("np.sum with an axis other than axis=1 of a matrix")
        out = _np.empty(a.shape[0], dtype=object).view(MArr)
        for r in range(a.shape[0]):
            acc = CONST(0)
            for e in a[r]:
                acc = acc + e
            out[r] = acc
        return out

    def clip(self, x, lo, hi):
        lo, hi = lift(lo), lift(hi)
        if not (lo.is_const and hi.is_const and cval(lo) < cval(hi)):
            raise TranslatorUnsupported("np.clip with non-constant or unordered bounds")

        def one(e):
            e = lift(e)
            e = ite(Cond("lt", e, lo), lo, e)          # maximum(x, lo)
            return ite(Cond("lt", hi, e), hi, e)       # minimum(., hi)

        if isinstance(x, _np.ndarray):
            out = _np.empty(x.shape, dtype=object).view(MArr)
            o, xi = out.reshape(-1), _np.asarray(x, dtype=object).reshape(-1)
            for i in range(xi.size):
                o[i] = one(xi[i])
            return out
        return one(x)

    def min(self, x, axis=None):
        if axis is not None:
            raise TranslatorUnsupported("np.min with axis")
        a = _np.asarray(x, dtype=object).reshape(-1)
        if a.size == 0:
            raise ValueError("zero-size array to reduction operation minimum which has no identity")
        m = lift(a[0])
        for e in a[1:]:
            e = lift(e)
            if e is not m:
                m = Node("min2", m, e)     # emitted as Model_mindex.fmin m e = if e < m then e else m
        return m

    def _scale(self, x, factor):
        if isinstance(x, _np.ndarray):
            out = _np.empty(x.shape, dtype=object).view(MArr)
            o, xi = out.reshape(-1), _np.asarray(x, dtype=object).reshape(-1)
            for i in range(xi.size):
                o[i] = lift(xi[i]) * factor
            return out
        return lift(x) * factor

    def rad2deg(self, x):
        return self._scale(x, CONST(180) / self.pi)

    def deg2rad(self, x):
        return self._scale(x, self.pi / CONST(180))

    def histogram(self, a, bins=10, range=None, density=None, weights=None):
        if weights is not None:
            raise TranslatorUnsupported("np.histogram with weights")
        if not (isinstance(bins, int) and isinstance(range, tuple) and len(range) == 2
                and all(isinstance(r, int) for r in range) and isinstance(density, bool)):
            raise TranslatorUnsupported("np.histogram: bins / range / density are not literal int / (int, int) / bool")
        data = _np.asarray(a, dtype=object)
        if data.ndim != 1:
            raise TranslatorUnsupported("np.histogram of a non 1-D array")
        r = HistResult(data, bins, range, density)
        self.hist_calls.append(r)
        return r


# ---------------------------------------------------------------------------------------
# stand-ins
# ---------------------------------------------------------------------------------------
class _Closed:
    """namespace standing for a module: only the listed names exist"""

    def __init__(self, what, **names):
        self.__dict__["_what"] = what
        self.__dict__.update(names)

    def __getattr__(self, name):
        raise TranslatorUnsupported(f"{self._what}.{name} is not modelled by the mindex translator")


class _Quat:
    def __init__(self, q):
        self.q = q

    def as_quat(self, *a, **k):
        if a or k:
            raise TranslatorUnsupported("as_quat with arguments (scalar-last default assumed)")
        return _marr(self.q)


class RotSym:
    """scipy.spatial.transform.Rotation as used by geometry.symmetry_operations"""

    def __getattr__(self, name):
        raise TranslatorUnsupported(f"Rotation.{name} is not modelled inside symmetry_operations")

    def identity(self, *a, **k):
        if a or k:
            raise TranslatorUnsupported("Rotation.identity with arguments")
        return _Quat([CONST(0), CONST(0), CONST(0), CONST(1)])

    def from_rotvec(self, v, *a, **k):
        if a or k:
            raise TranslatorUnsupported("from_rotvec with extra arguments")
        v = [lift(e) for e in _np.asarray(v, dtype=object).reshape(-1)]
        if len(v) != 3:
            raise TranslatorUnsupported("from_rotvec of a non 3-vector")
        nz = [i for i, e in enumerate(v) if not (e.is_const and cval(e) == 0)]
        if len(nz) != 1:
            raise TranslatorUnsupported("from_rotvec: rotation vector is not along a coordinate axis")
        t = v[nz[0]]
        if not numeric(t) > 1e-3:
            raise TranslatorUnsupported("from_rotvec: the rotation angle is not a positive closed expression")
        q = [CONST(0)] * 4
        q[nz[0]] = (t / 2).sin()
        q[3] = (t / 2).cos()
        return _Quat(q)


class FracMember:
    """a LatticeSystem member whose value (M, N) is carried as exact rationals"""

    def __init__(self, real):
        self.real = real
        self.name = real.name
        M, N = real.value
        if not (isinstance(M, int) and isinstance(N, int) and M > 0 and N > 0):
            raise TranslatorUnsupported(f"LatticeSystem.{real.name}.value is not a pair of positive ints")
        self.value = (Fraction(M), Fraction(N))

    def __eq__(self, o):
        return o is self.real or o is self

    def __hash__(self):
        return hash(self.real)

    def __repr__(self):
        return repr(self.real)


class OrientToken:
    """the `orientations` argument of misorientation_hist / misorientation_index: only its length
    and .copy() are used before it reaches the as_quat oracle"""

    def __init__(self, n, origin=None):
        self.n, self.origin = n, origin

    def __len__(self):
        return self.n

    def copy(self):
        return OrientToken(self.n, origin=self)


class SeqPool:
    """multiprocessing.Pool stand-in: imap is the builtin map (in order)"""

    made = 0

    def __init__(self, processes=None, **k):
        if k:
            raise TranslatorUnsupported("Pool with keyword arguments other than processes")
        SeqPool.made += 1
        self.processes = processes

    def __enter__(self):
        return self

    def __exit__(self, *a):
        return False

    def imap(self, f, it, chunksize=1):
        return map(f, it)

    def __getattr__(self, name):
        raise TranslatorUnsupported(f"Pool.{name} is not modelled")


# ---------------------------------------------------------------------------------------
# emission
# ---------------------------------------------------------------------------------------
class MEmitter(emit_coq.FnEmitter):
    """shared emitter + the `round` node; branch CONDITIONS are printed in full (no let-bound
    names), so that every `if` of a generated decision tree shows its comparison at the head"""

    _inline = 0

    # every operation names its dictionary explicitly (@nmul F a b instead of a * b): with the
    # implicit form Coq's elaboration of a chain of several hundred `let`s is super-quadratic
    # (the 147-operator-pair kernel took 60 s, the 768-pair one did not finish in 15 min)
    XBIN = {"add": "nadd", "sub": "nsub", "mul": "nmul", "div": "ndiv"}

    def expr1(self, n, bound, pre):
        op = n.op
        if op == "round":
            return f"(@nofZ F (@g_round F {self.expr(n.args[0], bound, pre)}))"
        if op == "const":
            fr = n.args[0]
            if fr.denominator == 1:
                if fr == 0:
                    return "(@nzero F)"
                if fr == 1:
                    return "(@none F)"
                return f"(@nofZ F ({fr.numerator})%Z)"
            return f"(@ndiv F (@nofZ F ({fr.numerator})%Z) (@nofZ F ({fr.denominator})%Z))"
        if op == "pi":
            return "(@npi F)"
        if op in self.XBIN:
            a = self.expr(n.args[0], bound, pre)
            b = self.expr(n.args[1], bound, pre)
            return f"(@{self.XBIN[op]} F {a} {b})"
        if op in emit_coq.UN:
            f = emit_coq.UN[op]
            f = {"opp": "nopp"}.get(f, f)
            return f"(@{f} F {self.expr(n.args[0], bound, pre)})"
        if op == "ite":
            rel, a, b, t, e = n.args
            f = {"lt": "nltb", "le": "nleb", "eq": "neqb"}[rel]
            a = self.expr(a, bound, pre)
            b = self.expr(b, bound, pre)
            t = self.expr(t, bound, pre)
            e = self.expr(e, bound, pre)
            return f"(if @{f} F {a} {b} then {t} else {e})"
        if op == "min2":
            # a left fold of np.min kept as a call of the Gallina primitive (an `if` would mention
            # the running minimum twice: conversion on the unshared term is exponential)
            return f"(@fmin F {self.expr(n.args[0], bound, pre)} {self.expr(n.args[1], bound, pre)})"
        if op in ("pow", "atan2", "ite_nz"):
            raise TranslatorUnsupported(f"emit {op} (not used by the mindex functions)")
        return super().expr1(n, bound, pre)

    def arr_lit(self, elems, bound, pre):
        return "(mk_arr (@nzero F) [" + "; ".join(self.expr(e, bound, pre) for e in elems) + "])"

    def shared(self, n):
        return False if self._inline else super().shared(n)

    def cond(self, c, bound, pre):
        self._inline += 1
        try:
            if c.op in ("lt", "le", "eq"):
                f = {"lt": "nltb", "le": "nleb", "eq": "neqb"}[c.op]
                txt = f"(@{f} F {self.expr(c.a, {}, pre)} {self.expr(c.b, {}, pre)})"
                return f"(negb {txt})" if c.neg else txt
            return super().cond(c, {}, pre)
        finally:
            self._inline -= 1


PRELUDE = """(* GENERATED by /verif/translator/specs_mindex.py from the current /repo working tree -- do not edit.
{sources} *)
From Coq Require Import ZArith List Bool.
From PV Require Import Num Model_mindex.
Import ListNotations.
Local Open Scope num_scope.

(* Python's round() of a closed expression in [0, 399), not at a tie (checked by the translator) *)
Definition g_round {{F : Num}} (x : F) : Z := round_upto 400 0%Z x.

"""


def sha_of(path):
    return hashlib.sha256(open(path, "rb").read()).hexdigest()


# ---------------------------------------------------------------------------------------
def build_text():
    import pydrex.geometry as geo
    import pydrex.stats as st
    import pydrex.utils as utils
    import pydrex.diagnostics as dg

    members = list(geo.LatticeSystem)
    names = [m.name for m in members]
    for nm in names:
        if not nm.isidentifier() or not nm.isascii():
            raise TranslatorUnsupported(f"LatticeSystem member name {nm!r}")

    S = "scalar"
    ad = types.ModuleType("pydrex_mindex_adapters")
    ad.np = None
    tr = Translation(ad, [])
    proxy = MProxy()
    tr.proxy = proxy

    def real(mod, name):
        f = mod.__dict__[name]
        return getattr(f, "py_func", f)

    real_qprod = real(utils, "quat_product")
    real_symops = real(geo, "symmetry_operations")
    real_misang = real(geo, "misorientation_angles")
    real_maxmis = real(st, "_max_misorientation")
    real_random = real(st, "misorientations_random")
    real_hist = real(st, "misorientation_hist")
    real_index = real(dg, "misorientation_index")
    real_indices = real(dg, "misorientation_indices")

    def register(pyname, fn, params, cname):
        ad.__dict__[pyname] = fn
        tr.orig[pyname] = fn
        tr.specs[pyname] = Spec(ad, pyname, params, cname=cname)

    order = []   # adapter names in emission order
    tables = []  # extra text blocks, emitted after the definition with the given name

    # ================= utils.quat_product =================
    def quat_product(q1, q2):
        out = real_qprod(q1.view(MArr), q2.view(MArr))
        if not (isinstance(out, list) and len(out) == 4):
            raise TranslatorUnsupported("quat_product does not return a list of four numbers")
        return out

    register("quat_product", quat_product, [("q1", "arr", (4,)), ("q2", "arr", (4,))], "k_quat_product")
    order.append("quat_product")

    # ================= geometry.symmetry_operations, every member =================
    op_shapes = {}

    def mk_symops(member):
        def symmetry_operations_m():
            saved = geo.__dict__["Rotation"]
            geo.__dict__["Rotation"] = RotSym()
            try:
                ops = real_symops(member)
            finally:
                geo.__dict__["Rotation"] = saved
            if not isinstance(ops, list) or not ops:
                raise TranslatorUnsupported("symmetry_operations does not return a non-empty list")
            out = []
            for o in ops:
                o = _obj(o)
                if o.shape not in ((4,), (4, 4)):
                    raise TranslatorUnsupported(f"symmetry operation of shape {o.shape}")
                out.append(o.view(MArr))
            op_shapes[member.name] = [o.shape for o in out]
            return tuple(out)
        return symmetry_operations_m

    for m in members:
        register(f"symmetry_operations_{m.name}", mk_symops(m), [], f"k_symmetry_operations_{m.name}")
        order.append(f"symmetry_operations_{m.name}")

    # ================= geometry.misorientation_angles =================
    def mk_misang():
        def misorientation_angles_s(q1_array, q2_array):
            out = real_misang(q1_array.view(MArr), q2_array.view(MArr))
            if not (isinstance(out, _np.ndarray) and out.shape == (q1_array.shape[0],)):
                raise TranslatorUnsupported("misorientation_angles does not return one angle per row")
            return out
        return misorientation_angles_s

    def reg_misang(N, A, B):
        nm = f"misorientation_angles_n{N}_a{A}_b{B}"
        if nm not in tr.specs:
            register(nm, mk_misang(), [("q1_array", "arr", (N, A, 4)), ("q2_array", "arr", (N, B, 4))], "k_" + nm)
            order.append(nm)
        return nm

    for N, A, B in ANGLE_SIZES:
        reg_misang(N, A, B)

    # ================= stats.misorientations_random, every member =================
    def mk_random(member):
        fm = FracMember(member)

        def misorientations_random_m(low, high):
            return real_random(low, high, fm)
        return misorientations_random_m

    for m in members:
        register(f"misorientations_random_{m.name}", mk_random(m), [("low", S, None), ("high", S, None)],
                 f"k_misorientations_random_{m.name}")
        order.append(f"misorientations_random_{m.name}")

    # ================= stats.misorientation_hist up to np.histogram =================
    def call_symops(system):
        if not isinstance(system, geo.LatticeSystem):
            raise TranslatorUnsupported("symmetry_operations called with something that is not a LatticeSystem member")
        return list(ad.__dict__[f"symmetry_operations_{system.name}"]())

    def call_misang(q1, q2):
        q1, q2 = _obj(q1), _obj(q2)
        if q1.ndim != 3 or q2.ndim != 3 or q1.shape[2] != 4 or q2.shape[2] != 4:
            raise TranslatorUnsupported(f"misorientation_angles on shapes {q1.shape}, {q2.shape}")
        if q1.shape[0] != q2.shape[0]:
            raise ValueError("the first dimensions of q1_array and q2_array must be of equal length")
        nm = f"misorientation_angles_n{q1.shape[0]}_a{q1.shape[1]}_b{q2.shape[1]}"
        if nm not in tr.specs:
            raise TranslatorUnsupported(f"no generated kernel {nm}")
        return ad.__dict__[nm](q1, q2)

    def call_qprod(q1, q2):
        return _marr(ad.__dict__["quat_product"](q1, q2))

    stats_geo = _Closed("pydrex.geometry", symmetry_operations=call_symops, misorientation_angles=call_misang,
                        LatticeSystem=geo.LatticeSystem)
    stats_utils = _Closed("pydrex.utils", quat_product=call_qprod)
    hist_params = {}

    def mk_hist(member, n):
        def misorientation_hist_data_m(quats):
            token = OrientToken(n)
            used = []

            class RotOracle:
                def __getattr__(self, name):
                    raise TranslatorUnsupported(f"Rotation.{name} is not modelled inside misorientation_hist")

                def from_matrix(self, m, *a, **k):
                    if a or k:
                        raise TranslatorUnsupported("from_matrix with extra arguments")
                    if not (isinstance(m, OrientToken) and (m is token or m.origin is token)):
                        raise TranslatorUnsupported("from_matrix is not applied to (a copy of) `orientations`")
                    used.append(1)
                    return _Quat(quats)

            del proxy.hist_calls[:]
            for k in ("Rotation", "_geo", "_utils"):
                if k not in st.__dict__:
                    raise TranslatorUnsupported(f"pydrex.stats has no module-level name `{k}` any more: the stand-ins of the "
                                                "as_quat oracle / the callee kernels cannot be installed")
            saved = {k: st.__dict__[k] for k in ("Rotation", "_geo", "_utils")}
            st.__dict__.update(Rotation=RotOracle(), _geo=stats_geo, _utils=stats_utils)
            try:
                out = real_hist(token, member, None)
            finally:
                st.__dict__.update(saved)
            if len(used) != 1:
                raise TranslatorUnsupported("misorientation_hist does not call the as_quat oracle exactly once")
            if len(proxy.hist_calls) != 1 or out is not proxy.hist_calls[0]:
                raise TranslatorUnsupported("misorientation_hist does not return the result of one np.histogram call")
            p = (out.bins, out.range[0], out.range[1], out.density)
            if hist_params.setdefault(member.name, p) != p:
                raise TranslatorUnsupported("np.histogram parameters depend on the number of grains")
            if out.data.shape != (n * (n - 1) // 2,):
                raise TranslatorUnsupported("np.histogram is not applied to one angle per unordered pair")
            return _marr(out.data)
        return misorientation_hist_data_m

    # ================= diagnostics.misorientation_index given the histogram =================
    def mk_index(member):
        def misorientation_index_m(h):
            token = OrientToken(2)
            bins, lo, hi, _dens = hist_params[member.name]
            edges = _np.histogram_bin_edges(_np.array([float(lo)]), bins=bins, range=(lo, hi))
            calls = []

            def hist_stub(orientations, system, bins=None):
                if orientations is not token or system is not member or bins is not None:
                    raise TranslatorUnsupported("misorientation_index does not hand (orientations, system, bins) on to misorientation_hist")
                calls.append(1)
                return (h.view(MArr), edges)

            def random_stub(low, high, system):
                if system is not member:
                    raise TranslatorUnsupported("misorientations_random called for another lattice system")
                return ad.__dict__[f"misorientations_random_{member.name}"](low, high)

            saved = dg.__dict__["_stats"]
            dg.__dict__["_stats"] = _Closed("pydrex.stats", _max_misorientation=real_maxmis,
                                            misorientation_hist=hist_stub, misorientations_random=random_stub)
            try:
                out = real_index(token, member)
            finally:
                dg.__dict__["_stats"] = saved
            if len(calls) != 1:
                raise TranslatorUnsupported("misorientation_index does not call misorientation_hist exactly once")
            return out
        return misorientation_index_m

    # ================= diagnostics.misorientation_indices (sequential pool stand-in) =================
    def mk_indices(L, external):
        def misorientation_indices_s(m):
            member = members[0]
            tokens = [OrientToken(2) for _ in range(L)]
            seen = []

            def index_stub(orientations, system=None, bins=None):
                if system is not member or bins is not None:
                    raise TranslatorUnsupported("misorientation_indices does not pass system / bins on")
                k = [i for i, t in enumerate(tokens) if t is orientations]
                if len(k) != 1:
                    raise TranslatorUnsupported("misorientation_index applied to something that is not a snapshot of the stack")
                seen.append(k[0])
                return m[k[0]]

            if dg.__dict__["HAS_RAY"]:
                raise TranslatorUnsupported("Ray is installed: the multiprocessing branch is not the one executed")
            saved = {k: dg.__dict__[k] for k in ("Pool", "misorientation_index")}
            dg.__dict__.update(Pool=SeqPool, misorientation_index=index_stub)
            made0 = SeqPool.made
            try:
                if external:
                    out = real_indices(tokens, member, pool=SeqPool(processes=2))
                else:
                    out = real_indices(tokens, member, ncpus=2)
            finally:
                dg.__dict__.update(saved)
            if SeqPool.made != made0 + 1:
                raise TranslatorUnsupported("misorientation_indices does not use exactly one pool")
            if sorted(seen) != list(range(L)):
                raise TranslatorUnsupported("misorientation_indices does not evaluate every snapshot exactly once")
            return out
        return misorientation_indices_s

    # ---- trace (callees before callers; names registered before a caller is traced stay calls)
    rebinding = [(utils, "np", proxy), (geo, "np", proxy), (st, "np", proxy), (dg, "np", proxy)]
    saved = [(mod, k, mod.__dict__[k]) for mod, k, _ in rebinding]
    had_round = "__round__" in Node.__dict__
    import logging
    import pydrex.logger as plog
    quiet = [(h, h.level) for h in plog.LOGGER.handlers]
    try:
        T.div = _np_div
        Node.__round__ = _round_node
        for h, _ in quiet:
            h.setLevel(logging.CRITICAL)
        for mod, k, v in rebinding:
            mod.__dict__[k] = v
        for nm in order:
            tr.ensure(nm, {})
        phase2 = []
        def grains(m):
            return [n for n in HIST_GRAINS if n == 2 or len(op_shapes[m.name]) <= HIST_N3_MAX_OPS]
        for m in members:
            nops = len(op_shapes[m.name])
            for n in grains(m):
                reg_misang(n * (n - 1) // 2, nops, nops)
        for nm in order:
            tr.ensure(nm, {})
        for m in members:
            for n in grains(m):
                nm = f"misorientation_hist_data_{m.name}_n{n}"
                register(nm, mk_hist(m, n), [("quats", "arr", (n, 4))], "k_" + nm)
                phase2.append(nm)
        for nm in phase2:
            tr.ensure(nm, {})
        phase3 = []
        for m in members:
            nm = f"misorientation_index_{m.name}"
            register(nm, mk_index(m), [("h", "arr", (hist_params[m.name][0],))], "k_" + nm)
            phase3.append(nm)
        for nm in phase3:
            tr.ensure(nm, {})
        phase4 = []
        for L in STACK_LENGTHS:
            for ext in (False, True):
                nm = f"misorientation_indices_{'pool_' if ext else ''}l{L}"
                register(nm, mk_indices(L, ext), [("m", "arr", (L,))], "k_" + nm)
                phase4.append(nm)
        for nm in phase4:
            tr.ensure(nm, {})
    finally:
        T.div = _shared_div
        if not had_round:
            del Node.__round__
        for mod, k, v in saved:
            mod.__dict__[k] = v
        for h, lvl in quiet:
            h.setLevel(lvl)
    if proxy.float32_arrays == 0:
        raise TranslatorUnsupported("misorientation_hist no longer stores float32 quaternions (docs say it does)")

    # ---- tables (evaluated, not traced)
    rows = []
    for m in members:
        M, N = m.value
        th = real_maxmis(m)
        if not all(isinstance(x, int) for x in (M, N, th)):
            raise TranslatorUnsupported("LatticeSystem value / _max_misorientation is not an int")
        rows.append(f"({M}, {N}, {th})%Z")
    try:
        real_maxmis(None)
        other = "false"
    except ValueError:
        other = "true"
    table = ("(* LatticeSystem members in definition order: " + ", ".join(names) + ";\n"
             "   (M, N) = member.value, theta_max = stats._max_misorientation(member) *)\n"
             "Definition g_lattice_table : list (Z * Z * Z) :=\n  [" + ";\n   ".join(rows) + "].\n"
             "(* stats._max_misorientation(<anything else>) raises ValueError *)\n"
             f"Definition g_max_misorientation_other_raises : bool := {other}.\n"
             "(* number of operators and their shapes (4 = quaternion, 16 = 4x4 matrix) per member *)\n"
             "Definition g_symop_shapes : list (list nat) :=\n  ["
             + ";\n   ".join("[" + "; ".join(str(int(_np.prod(s))) for s in op_shapes[nm]) + "]" for nm in names) + "].\n")

    hp = []
    for nm in names:
        b, lo, hi, dens = hist_params[nm]
        hp.append(f"({b}, {lo}, {hi})%Z")
        if dens is not True:
            raise TranslatorUnsupported("np.histogram is not called with density=True")
    table += ("(* np.histogram(data, bins, range=(lo, hi), density=True) inside stats.misorientation_hist: (bins, lo, hi) per member *)\n"
              "Definition g_hist_params : list (Z * Z * Z) :=\n  [" + ";\n   ".join(hp) + "].\n")

    srcs = [utils.__file__, geo.__file__, st.__file__, dg.__file__]
    parts = [PRELUDE.format(sources="\n".join(f"   source: {os.path.relpath(s, REPO)}  sha256: {sha_of(s)}" for s in srcs))]
    parts.append(table)
    for cname in tr.order:
        parts.append(MEmitter(tr.defs[cname]).emit())
        parts.append("")
    return "\n".join(parts)


def translations():
    import os as _os
    import srcguard as _srcguard
    _srcguard.guard_from_baseline("specs_mindex", _os.environ.get("PYDREX_REPO", "/repo"))   # fail closed on new block-size-like integers
    outdir = sys.argv[1] if len(sys.argv) > 1 and os.path.isdir(sys.argv[1]) else os.path.join(
        os.path.dirname(os.path.dirname(os.path.abspath(__file__))), "coq", "gen")
    path = os.path.join(outdir, "Gen_mindex.v")
    text = build_text()
    if not (os.path.exists(path) and open(path).read() == text):
        with open(path, "w") as f:
            f.write(text)
    return []


if __name__ == "__main__":
    os.environ["NUMBA_DISABLE_JIT"] = "1"
    sys.path.insert(0, os.path.join(REPO, "src"))
    print(build_text())
