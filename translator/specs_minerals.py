"""Translator specs for the *glue* around the solver kernel (tie T for C01, C05-C09).

Gen_minerals.v  <-  pydrex/utils.py (extract_vars, apply_gbs) and the closures of
                    pydrex.minerals.Mineral.update_orientations (eval_rhs, perform_step + tail)

For n_grains in N_GRAINS the following definitions are regenerated from the current source:

  k_extract_vars_n{n} y                    = pydrex.utils.extract_vars(y, n)            (F, orientations, fractions)
  k_apply_gbs_n{n} o f chi prev            = pydrex.utils.apply_gbs(o, f, chi, prev, n) (orientations, fractions)
  k_eval_rhs_n{n}_a{A} regime phase fabric phis L s Sd p nn lam M y
        = the closure `eval_rhs(t, y)` handed to LSODA by Mineral.update_orientations, for a mineral
          with symbolic (regime, phase, fabric) ordinals, params["phase_assemblage"] = A
          (A in 0 | 1 | 01 | 10, ordinals of MineralPhase), params["phase_fractions"] = phis
          (symbolic), the user callable returning the symbolic 3x3 `L`, and the two ORACLES
              s  = np.abs(la.eigvalsh((L + L^T)/2)).max()     (one scalar; argument checked structurally)
              Sd = _tensors.polar_decompose(<3x3>)[1]          (a symbolic 3x3)
          `_core.derivatives` stays a call of Gen_core.k_derivatives_n{n}, `_utils.extract_vars`
          a call of k_extract_vars_n{n}; `eval_rhs` returning None (phase not in the assemblage) is
          the leaf Err TypeError (LSODA cannot use None), IndexError -> ValueError as in the source.
  k_update_n{n} chi prev y
        = everything Mineral.update_orientations does after the integrator has produced its last
          state vector y: perform_step (extract_vars -> apply_gbs -> solver.y[9:] = hstack(..)),
          the final extract_vars(solver.y.squeeze()), the two appends and the returned F.  Returns
          (F returned, orientations[-1], fractions[-1]).  The adapter checks that exactly one
          snapshot was appended to each list and that the earlier snapshot object is untouched.

How the real closures are obtained (nothing in /repo is edited, nothing is re-implemented):
`pydrex.minerals.LSODA` is replaced, for the duration of the trace, by
  * `_CaptureLSODA`  -- its constructor records `fun` and raises `_Captured`  (eval_rhs), or
  * `_OneStepLSODA`  -- `step()` returns None, `status == "finished"`, `y` = the symbolic vector
                        (post-processing).
Module-level names rebound while tracing (restored afterwards): `np` of pydrex.utils and
pydrex.minerals (-> GlueProxy), `la`, `_tensors`, `_core`, `_utils` of pydrex.minerals.

NumPy semantics added here (NOT in symtrace.py; `GlueProxy`/`GArr` subclass the shared classes):
  * ndarray.clip(lo, hi) elementwise = min(max(x, lo), hi) as an `ite` expression (no fork)
  * `a < scalar` on an array -> a Mask; `a[mask(,:,:)] = b[mask(,:,:)]`, `a[mask] = scalar`
    -> per-element `ite` (no fork);  any other use of a mask fails closed
  * array / scalar, array /= scalar: elementwise division that does NOT raise on 0 (NumPy array
    division never raises; the shared tracer's scalar division forks into Err DivZero)
  * A @ B for 3x3: sum_k A[i,k] B[k,j], left to right
The `ite` node and the optional extra `Require` line are two additive lines in emit_coq.py.

Mutation of arguments: apply_gbs writes into `orientations` and `fractions` and returns them.
The shared tracer fails closed on such kernels; here the adapter traces the real function on
*copies*, checks that what it returns ARE the (mutated) argument objects and that
`orientations_prev` is untouched, and the call stub used in `k_update` writes the outputs back
into the caller's arrays and returns those same objects -- so the aliasing the source relies on
(`solver.y[9:] = hstack(orientations, fractions)` after the call) is modelled by data flow.
extract_vars does not write into `y` (`.clip` copies); its F block is a *view* of y, which is
only read afterwards (checked: the argument-mutation check of the tracer applies to y).
"""
from __future__ import annotations

import types

import numpy as _np

import symtrace as T
from symtrace import (CONST, CallNode, Cond, Node, ProxyLinalg, ProxyNumpy, SArr, Spec, SymInt,
                      TRACER, Translation, TranslatorUnsupported, NonFiniteValue, cval, lift,
                      _build_tree, _mk_callouts, _norm_ret, _obj)

N_GRAINS = (1, 2, 3)
ASSEMBLAGES = {"0": (0,), "1": (1,), "01": (0, 1), "10": (1, 0)}
LOOP_STEPS = {1: (2, 3), 2: (2,), 3: (2,)}      # solver-loop lengths traced per grain count
BULK_SIZES = {1: (2, 3), 2: (), 3: ()}        # numbers of minerals handed to update_all per grain count
GR_VARIANTS = ("0", "10")                       # assemblages for which eval_rhs is traced with get_regime
# integer literals > 3 of the traced glue functions (srcguard.literal_guard): the 9 / 10 of the state-vector
# layout, the banded-Jacobian switch of __post_init__ (n_grains > 4632 -> lband = uband = 6000)
GLUE_SIZE_LITERALS = {
    "extract_vars": {9: 7, 10: 1}, "Mineral.update_orientations": {9: 1, 10: 1},
    "Mineral.__post_init__": {6000: 2, 4632: 1},
}


# ---------------------------------------------------------------------------------------
# array semantics
# ---------------------------------------------------------------------------------------
def ite(cond: Cond, t, e):
    """t if cond else e, as an expression (decided statically when possible)."""
    sv = cond.static_value()
    if sv is not None:
        return t if sv else e
    if cond.op not in ("lt", "le", "eq"):
        raise TranslatorUnsupported(f"ite on a {cond.op} condition")
    t, e = lift(t), lift(e)
    if t is e:
        return t
    if cond.neg:
        t, e = e, t
    return Node("ite", cond.op, cond.a, cond.b, t, e)


def adiv(a, b):
    """array-element / scalar: never raises (NumPy array semantics)."""
    a, b = lift(a), lift(b)
    if b.is_const and cval(b) == 0:
        raise TranslatorUnsupported("array division by the literal 0")
    if b.is_const or b.is_inf or a.is_inf:
        return T.div(a, b)
    if a.is_const and cval(a) == 0:
        return CONST(0)
    return Node("div", a, b)


class Mask:
    """Result of `array < scalar`: one undecided condition per element (1-D)."""

    def __init__(self, conds):
        self.conds = list(conds)

    def __bool__(self):
        raise TranslatorUnsupported("truth value of a boolean mask")


class MaskedSel:
    """`a[mask, :, :]` / `a[mask]` read: only usable as the right-hand side of the same-mask store."""

    def __init__(self, src, mask):
        self.src, self.mask = src, mask


def _mask_index(idx):
    """-> Mask if idx is `mask` or `(mask, :, :, ...)`, else None"""
    if isinstance(idx, Mask):
        return idx
    if isinstance(idx, tuple) and idx and isinstance(idx[0], Mask):
        for s in idx[1:]:
            if not (isinstance(s, slice) and s == slice(None)):
                raise TranslatorUnsupported("mask combined with a non-trivial index")
        return idx[0]
    if isinstance(idx, tuple) and any(isinstance(s, Mask) for s in idx):
        raise TranslatorUnsupported("mask in a non-leading index position")
    return None


class GArr(SArr):
    """object ndarray with the extra ndarray behaviour the glue uses"""

    def clip(self, lo=None, hi=None, **kw):
        if kw:
            raise TranslatorUnsupported("ndarray.clip with keyword arguments")
        if lo is None and hi is None:
            raise TranslatorUnsupported("clip(None, None)")
        out = _np.empty(self.shape, dtype=object).view(GArr)
        o = out.reshape(-1)
        for i, x in enumerate(_np.asarray(self, dtype=object).reshape(-1)):
            x = lift(x)
            if lo is not None:                       # maximum(x, lo)
                x = ite(Cond("lt", x, lift(lo)), lift(lo), x)
            if hi is not None:                       # minimum(., hi)
                x = ite(Cond("lt", lift(hi), x), lift(hi), x)
            o[i] = x
        return out

    # --- comparisons with a scalar give a Mask (1-D only)
    def __lt__(self, o):
        if self.ndim != 1 or isinstance(o, _np.ndarray):
            raise TranslatorUnsupported("array comparison other than 1-D array < scalar")
        o = lift(o)
        return Mask(Cond("lt", lift(x), o) for x in _np.asarray(self, dtype=object))

    def _no_cmp(self, o):
        raise TranslatorUnsupported("array comparison other than 1-D array < scalar")

    __gt__ = __le__ = __ge__ = __eq__ = __ne__ = _no_cmp
    __hash__ = None

    def __getitem__(self, idx):
        m = _mask_index(idx)
        if m is not None:
            if len(m.conds) != self.shape[0]:
                raise TranslatorUnsupported("mask length differs from the leading dimension")
            return MaskedSel(self, m)
        return super().__getitem__(idx)

    def __setitem__(self, idx, val):
        m = _mask_index(idx)
        if m is None:
            if isinstance(val, (Mask, MaskedSel)):
                raise TranslatorUnsupported("masked selection stored through a plain index")
            return super().__setitem__(idx, val)
        if len(m.conds) != self.shape[0]:
            raise TranslatorUnsupported("mask length differs from the leading dimension")
        if not self.flags.c_contiguous:
            raise TranslatorUnsupported("masked store into a non-contiguous view")
        base = _np.asarray(self, dtype=object)
        if isinstance(val, MaskedSel):
            # a[mask] = b[mask] with the SAME mask: row i of b goes to row i of a where mask[i]
            if val.mask is not m or val.src.shape != self.shape:
                raise TranslatorUnsupported("a[m1] = b[m2] with different masks or shapes")
            src = _np.asarray(val.src, dtype=object)
            for i, c in enumerate(m.conds):
                bi, si = base[i], src[i]
                if isinstance(bi, _np.ndarray):
                    fb, fs = bi.reshape(-1), si.reshape(-1)
                    for k in range(fb.size):
                        fb[k] = ite(c, fs[k], fb[k])
                else:
                    base[i] = ite(c, si, bi)
            return
        if isinstance(val, (_np.ndarray, list, tuple, Mask)):
            raise TranslatorUnsupported("a[mask] = <array>")
        v = lift(val)
        if self.ndim != 1:
            raise TranslatorUnsupported("a[mask] = scalar on a multi-dimensional array")
        for i, c in enumerate(m.conds):
            base[i] = ite(c, v, base[i])

    # --- division by a scalar never raises
    def _div_scalar(self, o, out):
        if isinstance(o, _np.ndarray):
            if o.ndim != 0:
                raise TranslatorUnsupported("array / array")
            o = o.item()
        o = lift(o)
        src = _np.asarray(self, dtype=object).reshape(-1)
        vals = [adiv(x, o) for x in src]
        dst = _np.asarray(out, dtype=object).reshape(-1)
        for i, v in enumerate(vals):
            dst[i] = v
        return out

    def __truediv__(self, o):
        out = _np.empty(self.shape, dtype=object).view(GArr)
        return self._div_scalar(o, out)

    def __itruediv__(self, o):
        if not self.flags.c_contiguous:
            raise TranslatorUnsupported("in-place division of a non-contiguous view")
        return self._div_scalar(o, self)

    def __rtruediv__(self, o):
        raise TranslatorUnsupported("scalar / array")

    def __matmul__(self, o):
        a = _np.asarray(self, dtype=object)
        b = _np.asarray(o, dtype=object)
        if a.shape != (3, 3) or b.shape != (3, 3):
            raise TranslatorUnsupported("@ other than 3x3 @ 3x3")
        out = _np.empty((3, 3), dtype=object).view(GArr)
        for i in range(3):
            for j in range(3):
                out[i, j] = a[i, 0] * b[0, j] + a[i, 1] * b[1, j] + a[i, 2] * b[2, j]
        return out

    def __rmatmul__(self, o):
        return _garr(o).__matmul__(self)

    # --- memory layout is not modelled: a flattening whose result depends on it fails closed
    #     (seeded change C06e: `np.asarray(F).ravel(order="K")` transposes a Fortran-ordered F)
    def ravel(self, order="C"):
        if order != "C":
            raise TranslatorUnsupported(f"ndarray.ravel(order={order!r}): the result depends on the memory layout of "
                                        "the caller's array, which symbolic arrays do not have")
        return _np.ndarray.ravel(self)

    def flatten(self, order="C"):
        if order != "C":
            raise TranslatorUnsupported(f"ndarray.flatten(order={order!r}): layout-dependent flattening is not modelled")
        return _np.ndarray.flatten(self)

    def max(self, *a, **k):
        raise TranslatorUnsupported("ndarray.max of a symbolic array")

    min = max


def _garr(a):
    return _obj(a).view(GArr)


def _gtree(x):
    """callout tuples / arrays -> GArr views (same Node objects)"""
    if isinstance(x, tuple):
        return tuple(_gtree(e) for e in x)
    if isinstance(x, _np.ndarray):
        return x.view(GArr)
    return x


# ---------------------------------------------------------------------------------------
# oracles: scipy.linalg.eigvalsh (strain-rate scale) and pydrex.tensors.polar_decompose
# ---------------------------------------------------------------------------------------
class _EigVals:
    def __init__(self, owner):
        self.owner = owner


class _AbsEigVals:
    def __init__(self, owner):
        self.owner = owner

    def max(self):
        self.owner.used += 1
        return self.owner.s


class _Poison:
    """polar_decompose(..)[0]: any use is a translator error"""

    def __getattr__(self, name):
        raise TranslatorUnsupported("the first factor of polar_decompose is not modelled")


class Oracles:
    """state shared by the rebound names while ONE eval_rhs call is traced"""

    def __init__(self):
        self.L = self.s = self.Sd = None
        self.used = 0

    # scipy.linalg as `la`
    def eigvalsh(self, m):
        if self.L is None:
            raise TranslatorUnsupported("la.eigvalsh outside eval_rhs")
        m = _obj(m)
        if m.shape != (3, 3):
            raise TranslatorUnsupported("eigvalsh of a non 3x3 array")
        L = self.L
        for i in range(3):
            for j in range(3):
                want = (L[i, j] + L[j, i]) / 2
                if m[i, j] is not want:
                    raise TranslatorUnsupported(
                        "eigvalsh is not applied to (L + L^T)/2 (entry %d,%d): the strain-rate "
                        "scale oracle `s` of Model_minerals.rhs would mean something else" % (i, j))
        return _EigVals(self)

    # pydrex.tensors as `_tensors`
    def polar_decompose(self, m):
        if self.Sd is None:
            raise TranslatorUnsupported("polar_decompose outside eval_rhs")
        if _obj(m).shape != (3, 3):
            raise TranslatorUnsupported("polar_decompose of a non 3x3 array")
        return (_Poison(), self.Sd)


class _Closed:
    """namespace standing for a module: only the listed names exist"""

    def __init__(self, what, **names):
        self.__dict__["_what"] = what
        self.__dict__.update(names)

    def __getattr__(self, name):
        raise TranslatorUnsupported(f"{self._what}.{name} is not modelled by the glue translator")


class GlueProxy(ProxyNumpy):
    def abs(self, x):
        if isinstance(x, _EigVals):
            return _AbsEigVals(x.owner)
        return super().abs(x)

    def hstack(self, xs):
        for x in xs:
            if isinstance(x, (Mask, MaskedSel)):
                raise TranslatorUnsupported("hstack of a masked selection")
        return _np.hstack([_obj(x) for x in xs]).view(GArr)

    def zeros(self, shape, dtype=None):
        return super().zeros(shape, dtype).view(GArr)

    def asarray(self, x, dtype=None):
        """np.asarray does NOT copy an ndarray that already has the requested dtype: the result IS the caller's
        array, an in-place operation on it writes into the caller's data (seeded change C05e).  The shared proxy's
        `asarray` copies; here the same object comes back, so that such a write is seen by the argument-mutation
        check of the tracer."""
        if isinstance(x, _np.ndarray):
            return x if isinstance(x, GArr) else x.view(GArr)
        return super().array(x, dtype).view(GArr)

    def full(self, shape, fill_value, dtype=None):
        a = _np.empty(self._shape(shape), dtype=object).view(GArr)
        a.reshape(-1)[:] = [lift(fill_value)] * a.size
        return a


# ---------------------------------------------------------------------------------------
# LSODA stand-ins
# ---------------------------------------------------------------------------------------
class _Captured(Exception):
    pass


class _ReturnsNone(Exception):
    """eval_rhs returned None: LSODA cannot continue (TypeError inside the integrator)"""


class _IterationFailed(Exception):
    """update_orientations raised pydrex.exceptions.IterationError (solver step failed) and the
    adapter has verified that the stored history is untouched: leaf Err OtherError"""


class _UnboundResult(Exception):
    """update_all([]) : `new_deformation_gradient` is unbound (UnboundLocalError): leaf Err OtherError"""


class GlueTranslation(Translation):
    """Translation with one more error leaf (`_ReturnsNone` -> Err TypeError).  `_trace_paths`
    is the shared one re-stated with that clause added; the shared argument-mutation check
    is kept."""

    def _trace_paths(self, d, perm):
        spec = d["spec"]
        mod = self.module
        self.orig.setdefault(spec.pyname, mod.__dict__[spec.pyname])
        fn = self.orig[spec.pyname]
        paths = []
        stack = [[]]
        while stack:
            script = stack.pop()
            forced = len(script)
            st = {"script": list(script), "ndec": 0, "memo": {}, "events": [], "calls": {}}
            saved = {}
            outer = TRACER.cur
            try:
                saved["np"] = mod.__dict__.get("np")
                mod.__dict__["np"] = self.proxy
                for other, ospec in self.specs.items():
                    if other == spec.pyname:
                        continue
                    saved[other] = mod.__dict__[other]
                    mod.__dict__[other] = self._stub(ospec)
                TRACER.cur = st
                args = self._make_args(spec, d["statics"], perm)
                originals = [a.copy() if isinstance(a, _np.ndarray) else None for a in args]
                try:
                    out = fn(*args)
                    for (pname, pkind, _), a, a0 in zip(spec.params, args, originals):
                        if a0 is not None and pkind in ("arr", "static"):
                            fa, f0 = a.reshape(-1), a0.reshape(-1)
                            if len(fa) != len(f0) or any(x is not y for x, y in zip(fa, f0)):
                                raise TranslatorUnsupported(
                                    f"{spec.pyname} mutates its array argument `{pname}` in place")
                    leaf = ("ret", _norm_ret(out))
                except TranslatorUnsupported:
                    raise
                except _ReturnsNone:
                    leaf = ("err", "TypeError")
                except (_IterationFailed, _UnboundResult):
                    leaf = ("err", "OtherError")
                except ZeroDivisionError:
                    leaf = ("err", "DivZero")
                except NonFiniteValue:
                    leaf = ("err", "NonFinite")
                except ValueError:
                    leaf = ("err", "ValueError")
                except AssertionError:
                    leaf = ("err", "AssertionError")
                except IndexError:
                    leaf = ("err", "IndexError")
            finally:
                TRACER.cur = outer
                for k, v in saved.items():
                    mod.__dict__[k] = v
            paths.append((st["events"], leaf))
            decs = st["script"]
            for i in range(forced, len(decs)):
                stack.append(decs[:i] + [False])
            if len(paths) > 4000:
                raise TranslatorUnsupported(f"{spec.pyname}: more than 4000 paths")
        return _build_tree(paths)


# ---------------------------------------------------------------------------------------
def translations():
    import pydrex.core as core
    import pydrex.minerals as pm
    import pydrex.utils as utils
    import specs_core

    S = "scalar"
    # signatures of the generated k_derivatives_n{n} (Gen_core), to keep the call a call
    core_tr = specs_core.translations()[0][1]

    ad = types.ModuleType("pydrex_glue_adapters")
    ad.np = None
    tr = GlueTranslation(ad, [])
    tr.proxy = GlueProxy()
    tr.header_extra = "From PV.gen Require Import Gen_core.\n"
    proxy = tr.proxy
    orc = Oracles()

    real_extract_vars = utils.__dict__["extract_vars"]
    real_extract_vars = getattr(real_extract_vars, "py_func", real_extract_vars)
    real_apply_gbs = utils.__dict__["apply_gbs"]
    real_apply_gbs = getattr(real_apply_gbs, "py_func", real_apply_gbs)

    def register(pyname, fn, params, cname):
        ad.__dict__[pyname] = fn
        tr.orig[pyname] = fn
        tr.specs[pyname] = Spec(ad, pyname, params, cname=cname)

    # ---- what pydrex.minerals sees as `_utils` while a closure is traced: calls of the
    #      generated kernels (the stubs are installed in `ad` by the tracer)
    def call_extract_vars(y, n_grains):
        name = f"extract_vars_n{n_grains}"
        if name not in tr.specs:
            raise TranslatorUnsupported(f"extract_vars with n_grains = {n_grains!r}")
        return _gtree(ad.__dict__[name](y))

    def call_apply_gbs(orientations, fractions, gbs_threshold, orientations_prev, n_grains):
        name = f"apply_gbs_n{n_grains}"
        if name not in tr.specs:
            raise TranslatorUnsupported(f"apply_gbs with n_grains = {n_grains!r}")
        if not (isinstance(orientations, _np.ndarray) and isinstance(fractions, _np.ndarray)):
            raise TranslatorUnsupported("apply_gbs on non-arrays")
        o2, f2 = ad.__dict__[name](orientations, fractions, gbs_threshold, orientations_prev)
        # the real function writes into its two first arguments and returns them
        orientations.reshape(-1)[:] = _np.asarray(o2, dtype=object).reshape(-1)
        fractions.reshape(-1)[:] = _np.asarray(f2, dtype=object).reshape(-1)
        return orientations, fractions

    def call_derivatives(*a, **kw):
        n = kw.get("n_grains", a[3] if len(a) > 3 else None)
        d = core_tr.defs.get(f"k_derivatives_n{n}")
        if d is None:
            raise TranslatorUnsupported(f"derivatives with n_grains = {n!r}")
        core_tr.specs["derivatives"] = d["spec"]
        try:
            return _gtree(core_tr._stub(d["spec"])(*a, **kw))
        finally:
            del core_tr.specs["derivatives"]

    glue_utils = _Closed("pydrex.utils", extract_vars=call_extract_vars, apply_gbs=call_apply_gbs)
    glue_core = _Closed("pydrex.core", derivatives=call_derivatives)
    glue_tensors = _Closed("pydrex.tensors", polar_decompose=orc.polar_decompose)
    glue_la = _Closed("scipy.linalg", eigvalsh=orc.eigvalsh)

    def mk_mineral(n, prev_o, prev_f):
        m = pm.Mineral(phase=core.MineralPhase.olivine, fabric=core.MineralFabric.olivine_A,
                       regime=core.DeformationRegime.matrix_dislocation, n_grains=n,
                       fractions_init=prev_f, orientations_init=prev_o)
        if len(m.orientations) != 1 or len(m.fractions) != 1:
            raise TranslatorUnsupported("a new Mineral does not hold exactly one snapshot")
        return m

    def const_prev(n):
        return (_garr(_np.array([_np.eye(3)] * n)), _garr(_np.full(n, 1.0 / n)))

    def mk_mineral_hist(n, prev_o, prev_f, ords=None):
        """A mineral whose history is [decoy, (prev_o, prev_f)]: the DECOY is an older snapshot of constants
        (orientations 1/2, fractions 1/4) -- code that reads `orientations[0]` / `fractions[0]` where it must read
        the LAST snapshot then produces those constants and an instance lemma breaks (with a one-snapshot mineral
        [0] and [-1] are the same object; mutation m7 of round 5 went through the tie that way).  `ords`: symbolic
        (regime, phase, fabric) ordinals stored on the mineral, so that a branch of the DRIVER on them forks
        (seeded change C07d: LSODA bypassed in the viscosity-bound regimes)."""
        m = mk_mineral(n, prev_o, prev_f)
        decoy = (_garr(_np.full((n, 3, 3), 0.5)), _garr(_np.full(n, 0.25)))
        m.orientations.insert(0, decoy[0])
        m.fractions.insert(0, decoy[1])
        if ords is not None:
            m.regime, m.phase, m.fabric = ords
        return m, decoy

    def check_hist(m, decoy, prev_o, prev_f, grown, ords=None):
        want = 2 + (1 if grown else 0)
        if len(m.orientations) != want or len(m.fractions) != want:
            raise TranslatorUnsupported("update_orientations does not append exactly one snapshot" if grown
                                        else "the stored history changed although nothing was to be stored")
        if m.orientations[0] is not decoy[0] or m.fractions[0] is not decoy[1] \
                or m.orientations[1] is not prev_o or m.fractions[1] is not prev_f:
            raise TranslatorUnsupported("update_orientations replaces / reorders earlier snapshots")
        for a, v in ((decoy[0], 0.5), (decoy[1], 0.25)):
            if any((not isinstance(x, Node)) or (not x.is_const) or cval(x) != v for x in a.reshape(-1)):
                raise TranslatorUnsupported("an earlier snapshot was written into")
        if ords is not None and (m.regime is not ords[0] or m.phase is not ords[1] or m.fabric is not ords[2]):
            raise TranslatorUnsupported("the update rebinds the mineral's regime / phase / fabric although no "
                                        "get_regime callable was given")

    # ================= extract_vars / apply_gbs =================
    def mk_extract_vars(n):
        def extract_vars_n(y):
            out = real_extract_vars(y.view(GArr), n)
            if not (isinstance(out, tuple) and len(out) == 3):
                raise TranslatorUnsupported("extract_vars does not return three values")
            return out
        return extract_vars_n

    def mk_apply_gbs(n):
        def apply_gbs_n(orientations, fractions, gbs_threshold, orientations_prev):
            o = orientations.copy().view(GArr)
            f = fractions.copy().view(GArr)
            out = real_apply_gbs(o, f, gbs_threshold, orientations_prev.view(GArr), n)
            if not (isinstance(out, tuple) and len(out) == 2 and out[0] is o and out[1] is f):
                raise TranslatorUnsupported(
                    "apply_gbs no longer returns its (mutated) first two arguments: the "
                    "write-back model of the call stub does not apply")
            return out
        return apply_gbs_n

    # ================= eval_rhs =================
    def mk_eval_rhs(n, assemblage, nphi):
        def eval_rhs_n(regime, phase, fabric, phis, L, s, Sd, p, nn, lam, M, y):
            prev_o, prev_f = const_prev(n)
            m = mk_mineral(n, prev_o, prev_f)
            params = {
                "phase_assemblage": tuple(core.MineralPhase(a) for a in assemblage),
                "phase_fractions": [phis[i] for i in range(nphi)],
                "stress_exponent": p, "deformation_exponent": nn,
                "nucleation_efficiency": lam, "gbm_mobility": M,
                "gbs_threshold": CONST(0),
            }
            Lg = L.view(GArr)
            captured = {}

            class _CaptureLSODA:
                def __init__(self, fun, t0, y0, t_bound, **kw):
                    captured["fun"] = fun
                    raise _Captured()

            saved = pm.__dict__["LSODA"]
            pm.__dict__["LSODA"] = _CaptureLSODA
            try:
                try:
                    m.update_orientations(params, _garr(_np.eye(3)), lambda t, x: Lg,
                                          (0.0, 1.0, lambda t: None))
                except _Captured:
                    pass
            finally:
                pm.__dict__["LSODA"] = saved
            fun = captured.get("fun")
            if fun is None:
                raise TranslatorUnsupported("update_orientations did not construct LSODA")
            if len(m.orientations) != 1:
                raise TranslatorUnsupported("snapshot appended before integration")
            m.regime, m.phase, m.fabric = regime, phase, fabric
            orc.L, orc.s, orc.Sd, orc.used = Lg, s, Sd.view(GArr), 0
            try:
                out = fun(0.0, y.view(GArr))
            finally:
                orc.L = orc.s = orc.Sd = None
            if out is None:
                raise _ReturnsNone()
            if m.regime is not regime or m.phase is not phase or m.fabric is not fabric:
                raise TranslatorUnsupported("eval_rhs rebinds the mineral's ordinals")
            if len(m.orientations) != 1 or len(m.fractions) != 1:
                raise TranslatorUnsupported("eval_rhs appends a snapshot")
            return out
        return eval_rhs_n

    # ================= perform_step + tail of update_orientations =================
    def mk_update(n):
        def update_n(chi, prev, y):
            prev_o = prev.view(GArr)
            _, prev_f = const_prev(n)
            m, decoy = mk_mineral_hist(n, prev_o, prev_f)
            params = {"phase_assemblage": (core.MineralPhase.olivine,), "phase_fractions": [CONST(1)],
                      "stress_exponent": CONST(1), "deformation_exponent": CONST(1),
                      "nucleation_efficiency": CONST(1), "gbm_mobility": CONST(1),
                      "gbs_threshold": chi}
            ysym = y.copy().view(GArr)          # LSODA owns its state vector
            made = []

            class _OneStepLSODA:
                def __init__(self, fun, t0, y0, t_bound, **kw):
                    self.y, self.status, self.nsteps = ysym, "running", 0
                    made.append(self)

                def step(self):
                    self.nsteps += 1
                    self.status = "finished"
                    return None

            saved = pm.__dict__["LSODA"]
            pm.__dict__["LSODA"] = _OneStepLSODA
            try:
                F_ret = m.update_orientations(params, _garr(_np.eye(3)),
                                              lambda t, x: _garr(_np.zeros((3, 3))),
                                              (0.0, 1.0, lambda t: None))
            finally:
                pm.__dict__["LSODA"] = saved
            if len(made) != 1 or made[0].nsteps != 1:
                raise TranslatorUnsupported("update_orientations: not exactly one solver / one step")
            check_hist(m, decoy, prev_o, prev_f, grown=True)
            return F_ret, m.orientations[-1], m.fractions[-1]
        return update_n

    # ================= the driver around the integrator (round 5) =================
    # Everything below runs the REAL Mineral.update_orientations / update_all / __post_init__ with a
    # stand-in for scipy's LSODA (and for scipy's Rotation); what the stand-in is constructed with, and
    # what the method does with the vectors the stand-in "integrates", is the generated definition.
    def plain_params(chi):
        return {"phase_assemblage": (core.MineralPhase.olivine,), "phase_fractions": [CONST(1)],
                "stress_exponent": CONST(1), "deformation_exponent": CONST(1),
                "nucleation_efficiency": CONST(1), "gbm_mobility": CONST(1), "gbs_threshold": chi}

    def zero_L(t, x):
        return _garr(_np.zeros((3, 3)))

    def with_lsoda(cls, thunk):
        saved = pm.__dict__["LSODA"]
        pm.__dict__["LSODA"] = cls
        try:
            return thunk()
        finally:
            pm.__dict__["LSODA"] = saved

    LSODA_KW = ("atol", "rtol", "first_step", "lband", "uband")

    def check_ctor(a, kw, t0, t1, extra=()):
        """the constructor call LSODA(fun, t0, y0, t_bound, **kw) of update_orientations"""
        if len(a) != 4 or not callable(a[0]):
            raise TranslatorUnsupported("LSODA is not constructed as LSODA(fun, t0, y0, t_bound, **kw)")
        if a[1] is not t0 or a[3] is not t1:
            raise TranslatorUnsupported("LSODA's t0 / t_bound are not the pathline's start / end time")
        if sorted(kw) != sorted(LSODA_KW + tuple(extra)):
            raise TranslatorUnsupported(
                f"LSODA keyword arguments {sorted(kw)}: expected {sorted(LSODA_KW + tuple(extra))} "
                "(a new step-size / tolerance argument needs a model: Model_minerals.lsoda_problem)")
        if kw["lband"] is not None or kw["uband"] is not None:
            raise TranslatorUnsupported("lband / uband are not None for a small aggregate")

    # ---- LSODA's constructor arguments: (t0, y0, t_bound, atol, rtol, first_step)
    def mk_lsoda_args(n):
        def lsoda_args_n(regime, phase, fabric, Fd, prev_o, prev_f, t0, t1):
            po, pf, ords = prev_o.view(GArr), prev_f.view(GArr), (regime, phase, fabric)
            m, decoy = mk_mineral_hist(n, po, pf, ords)
            cap = {}

            class _ArgsLSODA:
                def __init__(self, *a, **kw):
                    cap["a"], cap["kw"] = a, kw
                    raise _Captured()

            try:
                with_lsoda(_ArgsLSODA, lambda: m.update_orientations(
                    plain_params(CONST(0)), Fd.view(GArr), zero_L, (t0, t1, lambda t: None)))
            except _Captured:
                pass
            if "a" not in cap:
                raise TranslatorUnsupported("update_orientations did not construct LSODA")
            a, kw = cap["a"], cap["kw"]
            check_ctor(a, kw, t0, t1)
            check_hist(m, decoy, po, pf, grown=False, ords=ords)
            return a[1], a[2], a[3], kw["atol"], kw["rtol"], kw["first_step"]
        return lsoda_args_n

    # ---- the caller's own atol / rtol / first_step replace the defaults; any further keyword
    #      (here max_step, min_step) is handed to LSODA unchanged
    def mk_lsoda_args_user(n):
        def lsoda_args_user_n(Fd, prev_o, prev_f, t0, t1, uatol, urtol, ufirst, umax, umin):
            m, _decoy = mk_mineral_hist(n, prev_o.view(GArr), prev_f.view(GArr))
            cap = {}

            class _ArgsLSODA:
                def __init__(self, *a, **kw):
                    cap["a"], cap["kw"] = a, kw
                    raise _Captured()

            try:
                with_lsoda(_ArgsLSODA, lambda: m.update_orientations(
                    plain_params(CONST(0)), Fd.view(GArr), zero_L, (t0, t1, lambda t: None),
                    atol=uatol, rtol=urtol, first_step=ufirst, max_step=umax, min_step=umin))
            except _Captured:
                pass
            if "a" not in cap:
                raise TranslatorUnsupported("update_orientations did not construct LSODA")
            a, kw = cap["a"], cap["kw"]
            check_ctor(a, kw, t0, t1, extra=("max_step", "min_step"))
            return (a[1], a[2], a[3], kw["atol"], kw["rtol"], kw["first_step"], kw["max_step"],
                    kw["min_step"])
        return lsoda_args_user_n

    # ---- the solver loop: `msteps` integrator steps; after step j the integrator's state vector is
    #      the (independent, symbolic) vector y_j.  `fail` selects what the stand-in's step() reports:
    #         fail ==  j : step j returns a message and status "failed"   -> IterationError
    #         fail == -j : step j returns a message but the status is not "failed" -> goes on
    #         otherwise  : every step returns None
    #      On IterationError the adapter verifies that the stored history is untouched.
    def mk_update_loop(n, msteps):
        def update_loop_n(fail, regime, phase, fabric, chi, prev, *ys):
            prev_o = prev.view(GArr)
            _, prev_f = const_prev(n)
            ords = (regime, phase, fabric)
            m, decoy = mk_mineral_hist(n, prev_o, prev_f, ords)
            vecs = [y.copy().view(GArr) for y in ys]
            made = []

            class _LoopLSODA:
                def __init__(self, fun, t0, y0, t_bound, **kw):
                    self.y, self.status, self.nsteps = None, "running", 0
                    made.append(self)

                def step(self):
                    if self.status != "running":
                        raise TranslatorUnsupported("step() of a solver that is not running")
                    self.nsteps += 1
                    j = self.nsteps
                    if j > msteps:
                        raise TranslatorUnsupported("more solver steps than the stand-in provides")
                    self.y = vecs[j - 1]          # scipy rebinds solver.y after every step
                    if fail == j:
                        self.status = "failed"
                        return "stand-in: step failed"
                    self.status = "finished" if j == msteps else "running"
                    if fail == -j:
                        return "stand-in: a message without failure"
                    return None

            try:
                F_ret = with_lsoda(_LoopLSODA, lambda: m.update_orientations(
                    plain_params(chi), _garr(_np.eye(3)), zero_L, (0.0, 1.0, lambda t: None)))
            except pm._err.IterationError:
                try:
                    check_hist(m, decoy, prev_o, prev_f, grown=False, ords=ords)
                except TranslatorUnsupported:
                    raise TranslatorUnsupported("a failed update changed the stored history")
                if len(made) != 1 or made[0].status != "failed":
                    raise TranslatorUnsupported("IterationError without a failed solver step")
                raise _IterationFailed()
            if len(made) != 1 or made[0].nsteps != msteps:
                raise TranslatorUnsupported("update_orientations: not exactly one solver / all its steps")
            check_hist(m, decoy, prev_o, prev_f, grown=True, ords=ords)
            return F_ret, m.orientations[-1], m.fractions[-1]
        return update_loop_n

    # ---- eval_rhs with a get_regime callable: the regime the kernel sees (and the regime stored on
    #      the mineral afterwards) is what the callable returns at (t, position), not the constructed one
    def mk_eval_rhs_gr(n, assemblage, nphi):
        def eval_rhs_gr_n(regime0, regime, phase, fabric, phis, L, s, Sd, p, nn, lam, M, y):
            prev_o, prev_f = const_prev(n)
            m = mk_mineral(n, prev_o, prev_f)
            params = {
                "phase_assemblage": tuple(core.MineralPhase(a) for a in assemblage),
                "phase_fractions": [phis[i] for i in range(nphi)],
                "stress_exponent": p, "deformation_exponent": nn,
                "nucleation_efficiency": lam, "gbm_mobility": M,
                "gbs_threshold": CONST(0),
            }
            Lg = L.view(GArr)
            captured = {}
            POS = object()
            T_EVAL = 0.25
            seen = {"pos": [], "L": [], "reg": []}

            class _CaptureLSODA:
                def __init__(self, fun, t0, y0, t_bound, **kw):
                    captured["fun"] = fun
                    raise _Captured()

            def get_position(t):
                seen["pos"].append(t)
                return POS

            def get_L(t, x):
                seen["L"].append((t, x))
                return Lg

            def get_regime(t, x):
                seen["reg"].append((t, x))
                return regime

            try:
                with_lsoda(_CaptureLSODA, lambda: m.update_orientations(
                    params, _garr(_np.eye(3)), get_L, (0.0, 1.0, get_position), get_regime=get_regime))
            except _Captured:
                pass
            fun = captured.get("fun")
            if fun is None:
                raise TranslatorUnsupported("update_orientations did not construct LSODA")
            if seen["reg"]:
                raise TranslatorUnsupported("get_regime is evaluated outside eval_rhs")
            m.regime, m.phase, m.fabric = regime0, phase, fabric
            seen["pos"].clear(); seen["L"].clear()
            orc.L, orc.s, orc.Sd, orc.used = Lg, s, Sd.view(GArr), 0
            try:
                out = fun(T_EVAL, y.view(GArr))
            finally:
                orc.L = orc.s = orc.Sd = None
            if out is None:
                if seen["reg"]:
                    raise TranslatorUnsupported("get_regime consulted for a mineral that is skipped")
                raise _ReturnsNone()
            if seen["pos"] != [T_EVAL] or len(seen["L"]) != 1 or seen["L"][0][0] != T_EVAL \
                    or seen["L"][0][1] is not POS:
                raise TranslatorUnsupported("eval_rhs(t, y) does not evaluate L at (t, get_position(t)) once")
            if len(seen["reg"]) != 1 or seen["reg"][0][0] != T_EVAL or seen["reg"][0][1] is not POS:
                raise TranslatorUnsupported("eval_rhs(t, y) does not evaluate get_regime at (t, get_position(t)) once")
            if m.regime is not regime:
                raise TranslatorUnsupported("the regime returned by get_regime is not stored on the mineral")
            if m.phase is not phase or m.fabric is not fabric:
                raise TranslatorUnsupported("eval_rhs rebinds the mineral's phase / fabric")
            if len(m.orientations) != 1 or len(m.fractions) != 1:
                raise TranslatorUnsupported("eval_rhs appends a snapshot")
            return out
        return eval_rhs_gr_n

    # ---- update_all: K minerals (n grains each), one integrator step each; returns the value of the
    #      call, the y0 every mineral's integrator was constructed with, and the appended snapshots.
    #      fail == j: the integrator of mineral j fails -> the exception leaves update_all; the adapter
    #      verifies that minerals before j were updated and minerals from j on are untouched.
    def mk_update_all(n, K):
        def update_all_n(fail, regime, phase, fabric, chi, Fd, *rest):
            prevs = [(rest[2 * i].view(GArr), rest[2 * i + 1].view(GArr)) for i in range(K)]
            vecs = [rest[2 * K + i].copy().view(GArr) for i in range(K)]
            ords = (regime, phase, fabric)
            built = [mk_mineral_hist(n, o, f, ords) for o, f in prevs]
            ms = [b[0] for b in built]
            decoys = [b[1] for b in built]
            Fg = Fd.view(GArr)
            F_before = list(Fg.reshape(-1))
            made = []

            class _BulkLSODA:
                def __init__(self, fun, t0, y0, t_bound, **kw):
                    self.idx = len(made)
                    if self.idx >= K:
                        raise TranslatorUnsupported("update_all builds more solvers than minerals")
                    self.y0 = y0
                    self.y, self.status, self.nsteps = None, "running", 0
                    made.append(self)

                def step(self):
                    self.nsteps += 1
                    self.y = vecs[self.idx]
                    if fail == self.idx + 1:
                        self.status = "failed"
                        return "stand-in: step failed"
                    self.status = "finished"
                    return None

            def call():
                if K == 0:
                    return pm.update_all([], plain_params(chi), Fg, zero_L, (0.0, 1.0, lambda t: None))
                return pm.update_all(ms, plain_params(chi), Fg, zero_L, (0.0, 1.0, lambda t: None))

            try:
                F_ret = with_lsoda(_BulkLSODA, call)
            except pm._err.IterationError:
                j = len(made)           # the failing one is the last that was built
                for i, mm in enumerate(ms):
                    try:
                        check_hist(mm, decoys[i], prevs[i][0], prevs[i][1], grown=(i < j - 1), ords=ords)
                    except TranslatorUnsupported:
                        raise TranslatorUnsupported("update_all after a failure: minerals before the failing one "
                                                    "must be updated, the failing one and later ones untouched")
                raise _IterationFailed()
            except UnboundLocalError:
                raise _UnboundResult()
            if len(made) != K or any(s.nsteps != 1 for s in made):
                raise TranslatorUnsupported("update_all: not one solver with one step per mineral")
            if any(x is not y for x, y in zip(Fg.reshape(-1), F_before)):
                raise TranslatorUnsupported("update_all writes into the caller's deformation gradient")
            out = [F_ret]
            for i, mm in enumerate(ms):
                check_hist(mm, decoys[i], prevs[i][0], prevs[i][1], grown=True, ords=ords)
                out += [made[i].y0, mm.orientations[-1], mm.fractions[-1]]
            return tuple(out)
        return update_all_n

    # ---- Mineral.__post_init__: the initial snapshot.  scipy's Rotation.random(n, random_state=seed)
    #      .as_matrix() is an ORACLE (the symbolic array R); the adapter checks its arguments.
    SEED = 20260930

    def mk_init_default(n):
        def init_default_n(R):
            Rg = R.view(GArr)
            calls = []

            class _Rot:
                def __init__(self, a):
                    self.a = a

                def as_matrix(self):
                    return self.a

            class _RotationStub:
                @staticmethod
                def random(num=None, random_state=None, **kw):
                    calls.append((num, random_state, kw))
                    return _Rot(Rg)

            saved = pm.__dict__["Rotation"]
            pm.__dict__["Rotation"] = _RotationStub
            try:
                m = pm.Mineral(phase=core.MineralPhase.olivine, fabric=core.MineralFabric.olivine_A,
                               regime=core.DeformationRegime.matrix_dislocation, n_grains=n, seed=SEED)
            finally:
                pm.__dict__["Rotation"] = saved
            if calls != [(n, SEED, {})]:
                raise TranslatorUnsupported("Rotation.random is not called once as random(n_grains, random_state=seed)")
            check_fresh(m, n)
            if m.orientations[0] is not Rg:
                raise TranslatorUnsupported("the random orientations are not stored as they are")
            return m.orientations[0], m.fractions[0]
        return init_default_n

    def check_fresh(m, n):
        if len(m.orientations) != 1 or len(m.fractions) != 1:
            raise TranslatorUnsupported("a new Mineral does not hold exactly one snapshot")
        if "fractions_init" in m.__dict__ or "orientations_init" in m.__dict__:
            raise TranslatorUnsupported("the *_init attributes survive __post_init__")
        if m.lband is not None or m.uband is not None or m.n_grains != n:
            raise TranslatorUnsupported("lband / uband / n_grains of a small aggregate")

    def mk_init_user(n):
        def init_user_n(o, f):
            og, fg = o.view(GArr), f.view(GArr)

            class _NoRotation:
                def __getattr__(self, name):
                    raise TranslatorUnsupported("Rotation used although the initial texture was supplied")

            saved = pm.__dict__["Rotation"]
            pm.__dict__["Rotation"] = _NoRotation()
            try:
                m = pm.Mineral(phase=core.MineralPhase.olivine, fabric=core.MineralFabric.olivine_A,
                               regime=core.DeformationRegime.matrix_dislocation, n_grains=n,
                               fractions_init=fg, orientations_init=og)
            finally:
                pm.__dict__["Rotation"] = saved
            check_fresh(m, n)
            return m.orientations[0], m.fractions[0]
        return init_user_n

    # ---- register everything first (every other registered name is a call stub while one
    #      function is traced), then trace callees before callers
    names = []
    for n in N_GRAINS:
        ny = 9 + 10 * n
        register(f"extract_vars_n{n}", mk_extract_vars(n), [("y", "arr", (ny,))],
                 f"k_extract_vars_n{n}")
        register(f"apply_gbs_n{n}", mk_apply_gbs(n),
                 [("orientations", "arr", (n, 3, 3)), ("fractions", "arr", (n,)),
                  ("gbs_threshold", S, None), ("orientations_prev", "arr", (n, 3, 3))],
                 f"k_apply_gbs_n{n}")
        names += [f"extract_vars_n{n}", f"apply_gbs_n{n}"]
    for n in N_GRAINS:
        ny = 9 + 10 * n
        variants = [(tag, a, len(a)) for tag, a in ASSEMBLAGES.items()]
        if n == 1:
            variants.append(("01_f1", (0, 1), 1))   # fewer fractions than phases: IndexError -> ValueError
        for tag, a, nphi in variants:
            register(f"eval_rhs_n{n}_a{tag}", mk_eval_rhs(n, a, nphi),
                     [("regime", "enum", None), ("phase", "enum", None), ("fabric", "enum", None),
                      ("phis", "arr", (nphi,)), ("L", "arr", (3, 3)), ("s", S, None),
                      ("Sd", "arr", (3, 3)), ("p", S, None), ("nn", S, None), ("lam", S, None),
                      ("M", S, None), ("y", "arr", (ny,))],
                     f"k_eval_rhs_n{n}_a{tag}")
            names.append(f"eval_rhs_n{n}_a{tag}")
        register(f"update_n{n}", mk_update(n),
                 [("chi", S, None), ("prev", "arr", (n, 3, 3)), ("y", "arr", (ny,))],
                 f"k_update_n{n}")
        names.append(f"update_n{n}")
    # ---- the driver around the integrator
    ORDS = [("regime", "enum", None), ("phase", "enum", None), ("fabric", "enum", None)]
    for n in N_GRAINS:
        ny = 9 + 10 * n
        register(f"lsoda_args_n{n}", mk_lsoda_args(n),
                 ORDS + [("Fd", "arr", (3, 3)), ("prev_o", "arr", (n, 3, 3)), ("prev_f", "arr", (n,)),
                         ("t0", S, None), ("t1", S, None)], f"k_lsoda_args_n{n}")
        names.append(f"lsoda_args_n{n}")
        for msteps in LOOP_STEPS[n]:
            register(f"update_loop_n{n}_m{msteps}", mk_update_loop(n, msteps),
                     [("fail", "enum", None)] + ORDS + [("chi", S, None), ("prev", "arr", (n, 3, 3))]
                     + [(f"y{j + 1}", "arr", (ny,)) for j in range(msteps)],
                     f"k_update_loop_n{n}_m{msteps}")
            names.append(f"update_loop_n{n}_m{msteps}")
        for K in BULK_SIZES[n]:
            register(f"update_all_n{n}_k{K}", mk_update_all(n, K),
                     [("fail", "enum", None)] + ORDS + [("chi", S, None), ("Fd", "arr", (3, 3))]
                     + [x for i in range(K) for x in ((f"o{i + 1}", "arr", (n, 3, 3)), (f"f{i + 1}", "arr", (n,)))]
                     + [(f"y{i + 1}", "arr", (ny,)) for i in range(K)],
                     f"k_update_all_n{n}_k{K}")
            names.append(f"update_all_n{n}_k{K}")
        register(f"init_default_n{n}", mk_init_default(n), [("R", "arr", (n, 3, 3))], f"k_init_default_n{n}")
        register(f"init_user_n{n}", mk_init_user(n), [("o", "arr", (n, 3, 3)), ("f", "arr", (n,))],
                 f"k_init_user_n{n}")
        names += [f"init_default_n{n}", f"init_user_n{n}"]
    register("lsoda_args_user_n1", mk_lsoda_args_user(1),
             [("Fd", "arr", (3, 3)), ("prev_o", "arr", (1, 3, 3)), ("prev_f", "arr", (1,)),
              ("t0", S, None), ("t1", S, None), ("uatol", S, None), ("urtol", S, None),
              ("ufirst", S, None), ("umax", S, None), ("umin", S, None)], "k_lsoda_args_user_n1")
    names.append("lsoda_args_user_n1")
    for tag in GR_VARIANTS:
        a = ASSEMBLAGES[tag]
        register(f"eval_rhs_gr_n1_a{tag}", mk_eval_rhs_gr(1, a, len(a)),
                 [("regime0", "enum", None), ("regime", "enum", None), ("phase", "enum", None),
                  ("fabric", "enum", None), ("phis", "arr", (len(a),)), ("L", "arr", (3, 3)), ("s", S, None),
                  ("Sd", "arr", (3, 3)), ("p", S, None), ("nn", S, None), ("lam", S, None),
                  ("M", S, None), ("y", "arr", (19,))],
                 f"k_eval_rhs_gr_n1_a{tag}")
        names.append(f"eval_rhs_gr_n1_a{tag}")

    import logging
    import pydrex.logger as plog
    quiet = [(h, h.level) for h in plog.LOGGER.handlers]
    rebinding = [(utils, "np", proxy), (pm, "np", proxy), (pm, "la", glue_la),
                 (pm, "_tensors", glue_tensors), (pm, "_core", glue_core), (pm, "_utils", glue_utils)]
    saved = [(mod, k, mod.__dict__[k]) for mod, k, _ in rebinding]
    import srcguard
    srcguard.literal_guard(utils.__file__, ["extract_vars", "apply_gbs"], GLUE_SIZE_LITERALS)
    srcguard.literal_guard(pm.__file__, ["Mineral.update_orientations", "Mineral.__post_init__", "update_all"],
                           GLUE_SIZE_LITERALS)
    try:
        for h, _ in quiet:          # "created Mineral ..." / "skipping ..." lines of every traced path
            h.setLevel(logging.CRITICAL)
        for mod, k, v in rebinding:
            mod.__dict__[k] = v
        # a new module-level helper of pydrex.utils / pydrex.minerals called from the traced glue is not
        # traced through silently (see srcguard.py)
        with srcguard.UnlistedCallGuard(utils, ["extract_vars", "apply_gbs"]), \
                srcguard.UnlistedCallGuard(pm, ["update_all"]):
            for nm in names:
                tr.ensure(nm, {})
    finally:
        for mod, k, v in saved:
            mod.__dict__[k] = v
        for h, lvl in quiet:
            h.setLevel(lvl)
    return [("Gen_minerals", tr, pm.__file__)]
