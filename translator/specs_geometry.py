"""Translator specs for the C20 group: pydrex.geometry (to_cartesian, to_spherical,
lambert_equal_area, poles for one orientation and each reference-axes string).

The public functions are traced *as they are* (no rewritten copies): the array idioms
they use are given symbolic meaning by `GeoProxy`, a subclass of the shared ProxyNumpy
that lives in this file (nothing in symtrace.py is changed):

* np.atleast_1d(scalar) -> `Raw1`, a length-1 array in the caller's (unknown) dtype whose ONLY
  supported use is `.astype(float)` -> a length-1 symbolic array of reals; arithmetic or a NumPy
  function on an unconverted argument fails closed (integer wrap-around / reduced precision)
* np.arctan2 / np.logical_and on arrays -> elementwise
* np.ma.masked_where / .fill_value / .filled(), +, **, /, np.sqrt on masked arrays
  -> the `if` the idiom implements: an element is masked when the condition holds, or
  when a *domained* numpy.ma operation leaves its domain (true_divide: denominator 0;
  sqrt: negative argument); `.filled()` yields the fill value on masked elements.
  The mask conditions fork the path like any other comparison.
* np.tensordot(A(1,3,3), hkl(3), axes=(2,0)) and scipy.linalg.norm(.., axis=1)
  (module-level name `la` of pydrex.geometry is rebound for the duration of the trace)

Array division by a symbolic scalar forks on `== 0` and raises in the model where NumPy
would produce nan/inf with a RuntimeWarning; the harness maps one onto the other.
"""
from __future__ import annotations

import numpy as _np

import symtrace as T
from symtrace import (CONST, Cond, Node, ProxyNumpy, SArr, Spec, Translation,
                      TranslatorUnsupported, lift, _obj)


class Arr1(SArr):
    """object array with the two ndarray methods the geometry functions call"""

    def astype(self, dtype, *a, **k):
        if dtype is float or dtype is _np.float64:
            return self
        raise TranslatorUnsupported(f"astype({dtype})")


def _arr1(a):
    return _obj(a).view(Arr1)


class Masked:
    """numpy.ma.MaskedArray of symbolic scalars with a *decided* mask (list of bools)."""

    __array_ufunc__ = None  # ndarray <op> Masked defers to Masked.__r<op>__ (as numpy.ma does)

    def __init__(self, data, mask, fill_value=None):
        self.data = list(data)
        self.mask = list(mask)
        self.fill_value = fill_value
        self.shape = (len(self.data),)

    def _bin(self, o, f, domain=None):
        if isinstance(o, Masked):
            od, om = o.data, o.mask
        elif isinstance(o, _np.ndarray):
            od, om = list(o.reshape(-1)), [False] * o.size
        else:
            od, om = [lift(o)] * len(self.data), [False] * len(self.data)
        if len(od) != len(self.data):
            raise TranslatorUnsupported("masked broadcast")
        data, mask = [], []
        for a, ma, b, mb in zip(self.data, self.mask, od, om):
            m = ma or mb
            if not m and domain is not None:
                m = bool(domain(a, b))
            mask.append(m)
            data.append(None if m else f(a, b))
        return Masked(data, mask)

    def __add__(self, o):
        return self._bin(o, lambda a, b: a + b)

    def __radd__(self, o):
        return self._bin(o, lambda a, b: b + a)

    def __pow__(self, k):
        return Masked([None if m else a ** k for a, m in zip(self.data, self.mask)], self.mask)

    def filled(self):
        if self.fill_value is None:
            raise TranslatorUnsupported("filled() without an explicit fill value")
        out = _np.empty(len(self.data), dtype=object).view(Arr1)
        for i, (a, m) in enumerate(zip(self.data, self.mask)):
            out[i] = lift(self.fill_value) if m else a
        return out


def _masked_div(num, den: Masked):
    """num / den with numpy.ma semantics: result masked where den is masked or den == 0."""
    if isinstance(num, _np.ndarray):
        nd = list(num.reshape(-1))
    else:
        nd = [lift(num)] * len(den.data)
    data, mask = [], []
    for n, d, m in zip(nd, den.data, den.mask):
        if not m:
            m = bool(Cond("eq", lift(d), CONST(0)))
        mask.append(m)
        if m:
            data.append(None)
        else:
            # the denominator is known non-zero on this path: build the quotient node
            # directly (T.div would fork again on the same, already decided, condition)
            data.append(T.div(lift(n), lift(d)))
    return Masked(data, mask)


Masked.__rtruediv__ = lambda self, o: _masked_div(o, self)


class ProxyMa:
    def __getattr__(self, name):
        raise TranslatorUnsupported(f"numpy.ma.{name} is not supported by the translator")

    def masked_where(self, condition, a):
        a = _obj(a).reshape(-1)
        conds = _np.asarray(condition, dtype=object).reshape(-1)
        if len(conds) != len(a):
            raise TranslatorUnsupported("masked_where shapes")
        return Masked(list(a), [bool(c) for c in conds])


class Raw1:
    """np.atleast_1d(<argument of the caller>): an array in the CALLER's dtype, which the trace does
    not know (Python int / float, int8 .. uint64, float16 / float32 / float64, ...).  Arithmetic in
    that dtype is not what the real-number model computes (integer powers and sums wrap around,
    NumPy evaluates ufuncs on int8 / int16 / float16 / float32 input in reduced precision), so the
    only thing that can be done with it is the conversion `.astype(float)`; every other use makes the
    translator fail closed.  (Added after seeded change C20d, which dropped the conversion.)"""

    MSG = ("is applied to an argument in the caller's dtype (np.atleast_1d without .astype(float)): "
           "integer wrap-around / reduced-precision evaluation is not modelled")

    def __init__(self, data):
        self.__dict__["_data"] = list(data)

    @property
    def shape(self):
        return (len(self._data),)

    ndim = 1

    def __len__(self):
        return len(self._data)

    def astype(self, dtype, *a, **k):
        if (dtype is float or dtype is _np.float64) and not a and not k:
            return _arr1(list(self._data))
        raise TranslatorUnsupported(f"astype({dtype}) of an argument array")

    def __getattr__(self, name):
        raise TranslatorUnsupported(f"ndarray.{name} " + Raw1.MSG)

    def _no(self, *a, **k):
        raise TranslatorUnsupported("arithmetic / comparison / indexing " + Raw1.MSG)

    __add__ = __radd__ = __sub__ = __rsub__ = __mul__ = __rmul__ = __truediv__ = __rtruediv__ = _no
    __pow__ = __rpow__ = __neg__ = __pos__ = __abs__ = __matmul__ = __rmatmul__ = __floordiv__ = __mod__ = _no
    __lt__ = __le__ = __gt__ = __ge__ = __eq__ = __ne__ = __getitem__ = __setitem__ = __iter__ = __bool__ = _no
    __array_ufunc__ = None
    __hash__ = None


def _guard(*xs):
    for x in xs:
        if isinstance(x, Raw1):
            raise TranslatorUnsupported("a NumPy function " + Raw1.MSG)


class GeoProxy(ProxyNumpy):
    def __init__(self):
        super().__init__()
        self.ma = ProxyMa()

    def atleast_1d(self, x):
        if isinstance(x, Raw1):
            return x
        if isinstance(x, _np.ndarray):
            return Raw1(x.reshape(-1))
        return Raw1([lift(x)])

    # elementwise functions of the shared proxy: never on an unconverted argument
    def abs(self, x):
        _guard(x)
        return super().abs(x)

    def exp(self, x):
        _guard(x)
        return super().exp(x)

    def cos(self, x):
        _guard(x)
        return super().cos(x)

    def sin(self, x):
        _guard(x)
        return super().sin(x)

    def tan(self, x):
        _guard(x)
        return super().tan(x)

    def arccos(self, x):
        _guard(x)
        return super().arccos(x)

    def arctan(self, x):
        _guard(x)
        return super().arctan(x)

    def asarray(self, x, dtype=None):
        _guard(x)
        return super().asarray(x, dtype)

    array = asarray

    def arctan2(self, y, x):
        _guard(y, x)
        if isinstance(y, _np.ndarray) and isinstance(x, _np.ndarray) and y.shape == x.shape:
            out = _np.empty(y.shape, dtype=object).view(Arr1)
            o = out.reshape(-1)
            for i, (a, b) in enumerate(zip(y.reshape(-1), x.reshape(-1))):
                o[i] = lift(a).arctan2(lift(b))
            return out
        return super().arctan2(y, x)

    def logical_and(self, a, b):
        _guard(a, b)
        a = _np.asarray(a, dtype=object).reshape(-1)
        b = _np.asarray(b, dtype=object).reshape(-1)
        out = _np.empty(len(a), dtype=object)
        for i, (p, q) in enumerate(zip(a, b)):
            if not (isinstance(p, Cond) and isinstance(q, Cond)):
                raise TranslatorUnsupported("logical_and of non-conditions")
            out[i] = Cond("all", (p, q), None)
        return out

    def sqrt(self, x):
        _guard(x)
        if isinstance(x, Masked):
            # numpy.ma.sqrt: domain x >= 0, masked (not evaluated) below 0
            data, mask = [], []
            for a, m in zip(x.data, x.mask):
                if not m:
                    m = bool(Cond("lt", lift(a), CONST(0)))
                mask.append(m)
                data.append(None if m else lift(a).sqrt())
            return Masked(data, mask)
        return super().sqrt(x)

    def tensordot(self, a, b, axes=2):
        a, b = _obj(a), _obj(b)
        if tuple(axes) != (2, 0) or a.ndim != 3 or b.ndim != 1 or a.shape[2] != b.shape[0]:
            raise TranslatorUnsupported("tensordot other than (N,3,3) x (3,) over axes (2, 0)")
        out = _np.empty(a.shape[:2], dtype=object).view(SArr)
        for n in range(a.shape[0]):
            for i in range(a.shape[1]):
                r = CONST(0)
                for k in range(a.shape[2]):
                    r = r + a[n, i, k] * b[k]
                out[n, i] = r
        return out


class ProxyLa:
    """scipy.linalg as used by pydrex.geometry.poles"""

    def __getattr__(self, name):
        raise TranslatorUnsupported(f"scipy.linalg.{name} is not supported by the translator")

    def norm(self, a, axis=None):
        a = _obj(a)
        if a.ndim != 2 or axis != 1:
            raise TranslatorUnsupported("norm other than row norms of a matrix")
        out = _np.empty(a.shape[0], dtype=object).view(SArr)
        for n in range(a.shape[0]):
            r = CONST(0)
            for k in range(a.shape[1]):
                r = r + a[n, k] * a[n, k]
            out[n] = r.sqrt()
        return out


AXES = ("xy", "xz", "yx", "yz", "zx", "zy")


def spellings(ax):
    """the four case spellings of a two-letter reference-axes string, lower case first"""
    a, b = ax
    return (a + b, a.upper() + b, a + b.upper(), a.upper() + b.upper())


# all 36 spellings: `poles` lower-cases its `ref_axes` argument, so each of them is legal
# input; every one is traced separately (k_poles_xz, k_poles_Xz, k_poles_xZ, k_poles_XZ, ...)
# and Proofs_poles_axes.v proves the 30 upper/mixed-case traces equal to the lower-case ones.
SPELLINGS = tuple(s for ax in AXES for s in spellings(ax))


def translations():
    import pydrex.geometry as geo

    S = "scalar"
    specs = [
        Spec(geo, "to_cartesian", [("phi", S, None), ("theta", S, None), ("r", S, None)]),
        Spec(geo, "to_spherical", [("x", S, None), ("y", S, None), ("z", S, None)]),
        Spec(geo, "lambert_equal_area", [("xvals", S, None), ("yvals", S, None), ("zvals", S, None)]),
    ]
    tr = Translation(geo, specs)
    tr.proxy = GeoProxy()
    saved_la = geo.__dict__["la"]
    geo.__dict__["la"] = ProxyLa()
    try:
        tr.trace_all([("to_cartesian", {}), ("to_spherical", {}), ("lambert_equal_area", {})])
        for ax in SPELLINGS:
            spec = Spec(geo, "poles",
                        [("orientations", "arr", (1, 3, 3)), ("ref_axes", "const", ax),
                         ("hkl", "arr", (3,))],
                        cname=f"k_poles_{ax}")
            tr.specs["poles"] = spec
            tr.ensure("poles", {})
            del tr.specs["poles"]
        # the default arguments (ref_axes="xz", hkl=[1, 0, 0]) as the source has them
        tr.specs["poles"] = Spec(geo, "poles", [("orientations", "arr", (1, 3, 3))], cname="k_poles_default")
        tr.ensure("poles", {})
        del tr.specs["poles"]
    finally:
        geo.__dict__["la"] = saved_la
    return [("Gen_geometry", tr, geo.__file__)]
