"""Translator spec for pydrex.diagnostics.elasticity_components (tie T for C12).

Gen_decomp.v  <-  pydrex/diagnostics.py   (elasticity_components, smallest_angle)

The public function is traced *as it is* (nothing of /repo is edited or re-implemented): the real
`elasticity_components` is run on a symbolic series of n = 1 and n = 2 Voigt matrices.

  k_ec_smallest_angle vector axis            = pydrex.diagnostics.smallest_angle(vector, axis)   (numba kernel)
  k_ec_sccs_col_{0,1,2} eigv_dij eigv_vij    = the value iteration i of the eigenvector-pairing loop stores into
                                               column i of the work array `unpermuted_SCCS`  (a SEGMENT, see below)
  k_ec_row eigh matrix                       = what one pass of `for m, matrix in enumerate(voigt_matrices)` writes into
                                               row m of the nine output arrays  (a SEGMENT, see below)
  k_elasticity_components_n1 eigh M0         = elasticity_components(<series of one>)
  k_elasticity_components_n2 eigh M0 M1      = elasticity_components(<series of two>)

  result of the last three: (flags, rows) -- row m = the 11 numbers [bulk_modulus, shear_modulus, percent_anisotropy,
  percent_hexagonal, percent_tetragonal, percent_orthorhombic, percent_monoclinic, percent_triclinic,
  hexagonal_axis(3)] of matrix m, flags[m] = 1; a matrix for which no candidate frame beats the initial
  distance leaves its percentages / axis as np.empty allocated them: flags[m] = 0 and the row is all zeros.

LAPACK is an ORACLE that stays a *function parameter* of the generated definitions:
  eigh : arr F -> arr F * arr F       (3x3 row-major -> eigenvalues, 3x3 row-major V whose COLUMNS are the vectors)
so WHICH matrix each of the two calls is applied to, and that only the eigenvector matrix `[1]` is used, is part
of the generated term, and the instance lemmas of coq/Inst_decomp.v make it a proof obligation.  The translator
itself checks that `la.eigh` gets exactly one positional 3x3 argument and nothing else.
Calls of pydrex.tensors kernels stay calls of the definitions of Gen_tensors.v (argument shapes, return shapes and
fallibility are taken from specs_tensors.py).

SEGMENTS.  The pairing loop `for i in range(3): ... unpermuted_SCCS[:, i] = vec_SCCS` makes up to 4 x 4 x 4
data-dependent choices per iteration, 64^3 control paths per matrix -- too many to enumerate in one tree.  Iteration
i is therefore summarised by its own definition k_ec_sccs_col_i, obtained from a run of the SAME real function in
which only the decisions / calls made on source lines of that loop during iteration i are recorded and the run is
cut at the store into column i; in the whole-function traces the decisions / calls made on lines of that loop are
not recorded, and each store into column i is replaced by the outputs of a call of k_ec_sccs_col_i on the CURRENT
values of the loop's free variables (read from the running frame).  What makes this sound is checked statically on
the AST of the current source, fail closed (`analyse`):
  * the loop is `for <i> in range(3)` whose body stores `W[:, <i>] = ...` exactly once, W = np.empty((3, 3))
    allocated by a sibling statement before the loop, W not otherwise mentioned inside the loop and never stored
    to elsewhere;
  * the body is made of assignments / for / if / expression statements only (no return, break, continue, try,
    with, while, lambda, comprehension, walrus, global, del ...);
  * every local name the body reads is either never assigned in the loop (a FREE variable: a parameter of the
    segment) or definitely assigned earlier in the same iteration;
  * no name assigned in the loop is read outside it, except under a `for` / comprehension that re-binds it.
Hence iteration i is a function of (free variables, i) alone and communicates with the rest through column i of W
only.  The loop over the series is summarised in the same way (k_ec_row; otherwise a series of two would need 8 copies
of the second matrix' tree): it must be `for <m>, <matrix> in enumerate(<the parameter>)`, the last statement before
`return <dict>`; the parameter is used by len() and that loop only; inside the loop the dictionary may only appear as
the base of the stores `<dict>[<str>][<m>] = ...` / `<dict>[<str>][<m>, ...] = ...`, which together with the column
store are the only array stores; the loop has NO free local variable besides the dictionary; the same definite-
assignment / deadness rules.  At the end of pass m the row is read from the running frame (all 11 entries, or the 8
percentages / axis entries still as np.empty allocated them -> flag 0), rows of other matrices must be untouched.
As a dynamic cross-check every definition is traced twice, with the unrecorded decisions answered True and
answered False, and the two results must print identically.

NumPy semantics (closed proxies; nothing in symtrace.py is changed): array elements and np / scipy.linalg results
are NumPy float64 values (`NF`): arithmetic never raises (x / 0 is nan / inf).  smallest_angle is a numba kernel
(error_model "python"): scalar division by zero raises ZeroDivisionError there (measured on the compiled function),
the shared forking division is used while it is traced.  np.sign(x) forks (x == 0, 0 < x) and returns the Python
float 0.0 / 1.0 / -1.0, so that `int(abs(index_vij))` is a concrete column on every path (np.sign(nan) = nan is
not modelled: the real-number model has no nan).  la.norm of a vector is sqrt(x0*x0 + x1*x1 + ...) left to right.
"""
from __future__ import annotations

import ast
import inspect
import sys
import textwrap
import types

import numpy as _np

import symtrace as T
from symtrace import (CONST, CallNode, Cond, Node, Spec, TRACER, Translation, TranslatorUnsupported,
                      Uninit, cval, lift, _mk_callouts)

EIGH_T = "arr F -> arr F * arr F"
OUT_KEYS = ["bulk_modulus", "shear_modulus", "percent_anisotropy", "percent_hexagonal", "percent_tetragonal",
            "percent_orthorhombic", "percent_monoclinic", "percent_triclinic", "hexagonal_axis"]
N_SERIES = (1, 2)


# ---------------------------------------------------------------------------------------
# tracing context: which decisions / calls are recorded
# ---------------------------------------------------------------------------------------
class Ctx:
    code = None          # code object of the real elasticity_components
    loop = (0, 0)        # first / last source line of the pairing loop
    outer = (0, 0)       # first / last source line of the loop over the series
    outname = None       # name of the dictionary of output arrays
    flags = None         # top mode: flag node of each finished row
    series = None        # the symbolic series the real function is running on
    alloc_line = 0       # source line of `W = np.empty((3, 3))`
    free = ()            # free local variables of the loop body (segment parameters)
    mode = "plain"       # "plain" (smallest_angle), "top", "row", ("seg", i)
    polarity = True      # answer given to unrecorded decisions
    writes = 0           # stores into W so far for the current matrix
    work = None          # the current W
    matrix = 0           # index of the series entry being processed
    tr = None
    div_raises = False   # True while a numba kernel is traced


CTX = Ctx()


class SegmentDone(Exception):
    def __init__(self, value, freevals):
        self.value, self.freevals = value, freevals


class RowDone(Exception):
    def __init__(self, row):
        self.row = row


def _ec_frame():
    f = sys._getframe(2)
    while f is not None:
        if f.f_code is CTX.code:
            return f
        f = f.f_back
    return None


def _recording():
    """are decisions / calls made right now part of the definition being traced?"""
    if CTX.mode == "plain":
        return True
    f = _ec_frame()
    if f is None:
        raise TranslatorUnsupported("symbolic decision / call outside elasticity_components")
    in_loop = CTX.loop[0] <= f.f_lineno <= CTX.loop[1]
    in_outer = CTX.outer[0] <= f.f_lineno <= CTX.outer[1]
    if CTX.mode == "top":
        return not in_outer
    if CTX.mode == "row":
        return in_outer and not in_loop and CTX.matrix == 0
    return in_loop and CTX.writes == CTX.mode[1] and CTX.matrix == 0


class DCond(Cond):
    """a decision that is only recorded (forked on) when it belongs to the definition being traced"""
    __slots__ = ()

    def negate(self):
        return DCond(self.op, self.a, self.b, not self.neg)

    def __bool__(self):
        sv = self.static_value()
        if sv is not None:
            return sv
        if _recording():
            return TRACER.decide(self) != self.neg
        return CTX.polarity != self.neg


# ---------------------------------------------------------------------------------------
# NumPy float64 values
# ---------------------------------------------------------------------------------------
def ite(cond, t, e):
    sv = cond.static_value()
    if sv is not None:
        return t if sv else e
    if t is e:
        return t
    if cond.neg:
        t, e = e, t
    return Node("ite", cond.op, cond.a, cond.b, t, e)


def _adiv(a, b):
    """a / b: raises on 0 inside a numba kernel, never raises for NumPy float64 values"""
    if CTX.div_raises:
        if b.is_const or b.is_inf:
            return T.div(a, b)
        if bool(DCond("eq", b, CONST(0))):
            raise ZeroDivisionError("division by zero")
        return Node("div", a, b)
    if b.is_const and cval(b) == 0:
        raise TranslatorUnsupported("division by the literal 0")
    if b.is_const or b.is_inf or a.is_inf:
        return T.div(a, b)
    return Node("div", a, b)


def _n(x):
    if isinstance(x, NF):
        return x.n
    if isinstance(x, Node):
        return x
    if isinstance(x, (bool, _np.bool_)):
        raise TranslatorUnsupported("boolean used as a number")
    if isinstance(x, (int, float, _np.floating, _np.integer)):
        return lift(x)
    if isinstance(x, Uninit):
        raise TranslatorUnsupported("content of np.empty is used before it is written")
    raise TranslatorUnsupported(f"arithmetic between a float64 value and {type(x).__name__}")


def _binop(f, swap=False):
    def m(self, o):
        if isinstance(o, _np.ndarray):
            return NotImplemented
        a, b = self.n, _n(o)
        return NF(f(b, a) if swap else f(a, b))
    return m


def _cmp(op, swap=False, neg=False):
    def m(self, o):
        if isinstance(o, _np.ndarray):
            return NotImplemented
        a, b = self.n, _n(o)
        if swap:
            a, b = b, a
        return DCond(op, a, b, neg)
    return m


class NF:
    """one NumPy float64 value, symbolic"""
    __slots__ = ("n",)

    def __init__(self, n):
        self.n = n

    __add__ = _binop(T.add)
    __radd__ = _binop(T.add, True)
    __sub__ = _binop(T.sub)
    __rsub__ = _binop(T.sub, True)
    __mul__ = _binop(T.mul)
    __rmul__ = _binop(T.mul, True)
    __truediv__ = _binop(_adiv)
    __rtruediv__ = _binop(_adiv, True)
    __lt__ = _cmp("lt")
    __gt__ = _cmp("lt", swap=True)
    __le__ = _cmp("le")
    __ge__ = _cmp("le", swap=True)
    __eq__ = _cmp("eq")
    __ne__ = _cmp("eq", neg=True)
    __hash__ = None

    def __neg__(self):
        return NF(T.neg(self.n))

    def __pos__(self):
        return self

    def __abs__(self):
        return NF(T.unary("abs", self.n))

    def __bool__(self):
        raise TranslatorUnsupported("truth value of a float64 value")

    def __float__(self):
        raise TranslatorUnsupported("float() of a symbolic float64 value")

    def __int__(self):
        raise TranslatorUnsupported("int() of a symbolic float64 value")

    def __index__(self):
        raise TranslatorUnsupported("a symbolic float64 value used as an index")

    def __repr__(self):
        return f"NF({self.n!r})"


def _fail(what):
    def m(self, *a, **k):
        raise TranslatorUnsupported(f"ndarray.{what} is not modelled by the decomposition translator")
    return m


class DArr(_np.ndarray):
    """object ndarray of NF values (or Uninit); indexing / slicing / transpose / elementwise arithmetic are NumPy's
    own; everything else fails closed"""

    for _m in ("sum", "dot", "mean", "cumsum", "cumprod", "prod", "max", "min", "clip", "argsort", "sort", "trace",
               "round", "std", "var", "argmax", "argmin", "any", "all", "nonzero", "fill", "put", "resize",
               "partition", "argpartition", "searchsorted", "conj", "conjugate", "tolist", "item", "astype",
               "__matmul__", "__rmatmul__", "__imatmul__"):
        locals()[_m] = _fail(_m)
    del _m
    __lt__ = __le__ = __gt__ = __ge__ = __eq__ = __ne__ = _fail("comparison")
    __hash__ = None

    def __setitem__(self, key, value):
        if CTX.work is not None and self is CTX.work:
            value = _store_column(self, key, value)
        _np.ndarray.__setitem__(self, key, value)


def _darr(shape):
    return _np.empty(shape, dtype=object).view(DArr)


def to_nf(a):
    a = _np.asarray(a, dtype=object)
    out = _darr(a.shape)
    o = out.reshape(-1)
    for i, x in enumerate(a.reshape(-1)):
        if not isinstance(x, Node):
            raise TranslatorUnsupported(f"array element of type {type(x).__name__}")
        o[i] = NF(x)
    return out


def wrap(x):
    if isinstance(x, tuple):
        return tuple(wrap(e) for e in x)
    if isinstance(x, _np.ndarray):
        return to_nf(x)
    return NF(x)


def nodes_of(a, what):
    out = []
    for e in _np.asarray(a, dtype=object).reshape(-1):
        if isinstance(e, Uninit):
            raise TranslatorUnsupported(f"{what}: content of np.empty is used before it is written")
        out.append(_n(e))
    return out


def arr_arg(a, shape, what):
    if not isinstance(a, _np.ndarray) or a.shape != tuple(shape):
        raise TranslatorUnsupported(f"{what}: argument of shape {getattr(a, 'shape', type(a).__name__)}, expected {shape}")
    return ("arr", nodes_of(a, what), tuple(shape))


# ---------------------------------------------------------------------------------------
# closed numpy / scipy.linalg
# ---------------------------------------------------------------------------------------
def _elementwise(op):
    def f(self, x, *rest, **kw):
        if rest or kw:
            raise TranslatorUnsupported(f"np.{op} with extra arguments")
        if isinstance(x, _np.ndarray):
            out = _darr(x.shape)
            o = out.reshape(-1)
            for i, e in enumerate(nodes_of(x, "np." + op)):
                o[i] = NF(T.unary(op, e))
            return out
        return NF(T.unary(op, _n(x)))
    return f


def vnorm(v, *a, **kw):
    """2-norm of a vector (scipy.linalg.norm / numpy.linalg.norm with default arguments)"""
    if a or kw:
        raise TranslatorUnsupported("norm with ord / axis arguments")
    if not isinstance(v, _np.ndarray) or v.ndim != 1 or v.size == 0:
        raise TranslatorUnsupported("norm of something that is not a vector")
    es = nodes_of(v, "norm")
    s = T.mul(es[0], es[0])
    for e in es[1:]:
        s = T.add(s, T.mul(e, e))
    return NF(T.unary("sqrt", s))


class _Linalg:
    def __getattr__(self, name):
        raise TranslatorUnsupported(f"numpy.linalg.{name} is not modelled by the decomposition translator")

    norm = staticmethod(vnorm)


class DecompNumpy:
    ndarray = _np.ndarray
    float64 = float

    def __init__(self):
        self.linalg = _Linalg()
        self.pi = NF(Node("pi"))

    def __getattr__(self, name):
        raise TranslatorUnsupported(f"numpy.{name} is not modelled by the decomposition translator")

    def empty(self, shape, *a, **kw):
        if a or kw:
            raise TranslatorUnsupported("np.empty with dtype / order arguments")
        shape = (shape,) if isinstance(shape, (int, _np.integer)) else tuple(shape)
        out = _darr(shape)
        o = out.reshape(-1)
        for i in range(o.size):
            o[i] = Uninit()
        if CTX.mode != "plain":
            f = _ec_frame_here()
            if f is not None and f.f_lineno == CTX.alloc_line:
                if shape != (3, 3):
                    raise TranslatorUnsupported("the work array of the pairing loop is not 3x3")
                CTX.work, CTX.writes = out, 0
        return out

    def asarray(self, x, *a, **kw):
        if a or kw:
            raise TranslatorUnsupported("np.asarray with dtype / order arguments")
        if isinstance(x, (DArr, NF)):
            return x
        raise TranslatorUnsupported(f"np.asarray of {type(x).__name__}")

    sqrt = _elementwise("sqrt")
    arccos = _elementwise("acos")

    def rad2deg(self, x):
        if isinstance(x, _np.ndarray):
            raise TranslatorUnsupported("np.rad2deg of an array")
        # x * 180 / pi; the quotient node is built directly (pi is not 0: no DivZero fork)
        return NF(Node("div", T.mul(_n(x), CONST(180)), Node("pi")))

    def dot(self, a, b):
        if not (isinstance(a, _np.ndarray) and isinstance(b, _np.ndarray)) or a.shape != (3,) or b.shape != (3,):
            raise TranslatorUnsupported("np.dot of other than two 3-vectors")
        x, y = nodes_of(a, "np.dot"), nodes_of(b, "np.dot")
        return NF(T.add(T.add(T.mul(x[0], y[0]), T.mul(x[1], y[1])), T.mul(x[2], y[2])))

    def trace(self, x, *a, **kw):
        if a or kw or not isinstance(x, _np.ndarray) or x.shape != (3, 3):
            raise TranslatorUnsupported("np.trace of other than a 3x3 array")
        return x[0, 0] + x[1, 1] + x[2, 2]

    def clip(self, x, lo, hi, **kw):
        if kw or isinstance(x, _np.ndarray):
            raise TranslatorUnsupported("np.clip of an array / with keyword arguments")
        x, lo, hi = _n(x), _n(lo), _n(hi)
        x = ite(Cond("lt", x, lo), lo, x)          # maximum(x, lo)
        x = ite(Cond("lt", hi, x), hi, x)          # minimum(., hi)
        return NF(x)

    def sign(self, x):
        if isinstance(x, _np.ndarray):
            raise TranslatorUnsupported("np.sign of an array")
        n = _n(x)
        if bool(DCond("eq", n, CONST(0))):
            return 0.0
        if bool(DCond("lt", CONST(0), n)):
            return 1.0
        return -1.0

    def repeat(self, x, k, *a, **kw):
        if a or kw or isinstance(x, _np.ndarray) or isinstance(k, bool) or not isinstance(k, int):
            raise TranslatorUnsupported("np.repeat other than (scalar, int)")
        out = _darr((k,))
        v = x if isinstance(x, NF) else NF(_n(x))
        for i in range(k):
            out[i] = v
        return out

    def hstack(self, xs, *a, **kw):
        if a or kw:
            raise TranslatorUnsupported("np.hstack with arguments")
        parts = list(xs)
        if not all(isinstance(p, DArr) and p.ndim == 1 for p in parts):
            raise TranslatorUnsupported("np.hstack of other than vectors")
        out = _darr((sum(p.size for p in parts),))
        k = 0
        for p in parts:
            for e in p:
                out[k] = e
                k += 1
        return out


def _ec_frame_here():
    f = sys._getframe(1)
    while f is not None:
        if f.f_code is CTX.code:
            return f
        f = f.f_back
    return None


class _Closed:
    def __init__(self, what, **names):
        self.__dict__["_what"] = what
        self.__dict__.update(names)

    def __getattr__(self, name):
        raise TranslatorUnsupported(f"{self._what}.{name} is not modelled by the decomposition translator")


class OracleParam:
    """placeholder for a function parameter of a generated definition; the source never sees it"""

    def __init__(self, name):
        self.name = name


# ---------------------------------------------------------------------------------------
# static analysis of the two summarised loops (see module docstring)
# ---------------------------------------------------------------------------------------
_BAD = (ast.Return, ast.Break, ast.Continue, ast.Try, ast.With, ast.While, ast.Lambda, ast.FunctionDef,
        ast.ClassDef, ast.NamedExpr, ast.Global, ast.Nonlocal, ast.Delete, ast.Import, ast.ImportFrom, ast.Raise,
        ast.Assert, ast.Yield, ast.YieldFrom, ast.Await, ast.AsyncFor, ast.AsyncWith, ast.Match, ast.Starred,
        ast.AsyncFunctionDef)
_COMP = (ast.ListComp, ast.SetComp, ast.GeneratorExp, ast.DictComp)


def _is_call(node, mod, attr):
    return (isinstance(node, ast.Call) and isinstance(node.func, ast.Attribute) and node.func.attr == attr
            and isinstance(node.func.value, ast.Name) and node.func.value.id == mod)


def _stores(node):
    return {n.id for n in ast.walk(node) if isinstance(n, ast.Name) and isinstance(n.ctx, ast.Store)}


def _free_loads(node, bound=frozenset()):
    """Name loads of an expression, except those bound by an enclosing comprehension"""
    if isinstance(node, _COMP):
        b, out = set(bound), []
        for g in node.generators:
            out += _free_loads(g.iter, frozenset(b))
            b |= _stores(g.target)
            for c in g.ifs:
                out += _free_loads(c, frozenset(b))
        for e in ([node.key, node.value] if isinstance(node, ast.DictComp) else [node.elt]):
            out += _free_loads(e, frozenset(b))
        return out
    if isinstance(node, ast.Name):
        return [node] if isinstance(node.ctx, ast.Load) and node.id not in bound else []
    out = []
    for ch in ast.iter_child_nodes(node):
        out += _free_loads(ch, bound)
    return out


def _check_loop(fdef, loop, local_names, store_ok, exempt):
    """`loop` (an ast.For) can be summarised per iteration: statement forms, every local name read is free (never
    assigned in the loop) or definitely assigned earlier in the same iteration, names assigned in the loop are dead
    outside it.  `store_ok(subscript target)` says which array stores are the loop's outputs; loads of the names in
    `exempt` are not looked at.  Returns the free local variables in order of first use."""
    for n in ast.walk(loop):
        if isinstance(n, _BAD):
            raise TranslatorUnsupported(f"line {n.lineno}: {type(n).__name__} inside a summarised loop")
        if isinstance(n, ast.Subscript) and not isinstance(n.ctx, ast.Load) and not store_ok(n):
            raise TranslatorUnsupported(f"line {n.lineno}: array store that is not an output of the summarised loop")
        if isinstance(n, ast.Attribute) and not isinstance(n.ctx, ast.Load):
            raise TranslatorUnsupported(f"line {n.lineno}: attribute store inside a summarised loop")
    assigned = _stores(loop)
    free = []

    def reads_ok(expr, defined):
        for n in _free_loads(expr):
            if n.id in exempt:
                continue
            if n.id in assigned:
                if n.id not in defined:
                    raise TranslatorUnsupported(
                        f"line {n.lineno}: `{n.id}` may carry a value from an earlier iteration of the loop at line {loop.lineno}")
            elif n.id in local_names and n.id not in free:
                free.append(n.id)

    def block(stmts, defined):
        defined = set(defined)
        for st in stmts:
            if isinstance(st, ast.Assign):
                reads_ok(st.value, defined)
                for t in st.targets:
                    if isinstance(t, ast.Name):
                        defined.add(t.id)
                    elif isinstance(t, ast.Subscript):
                        reads_ok(t.slice, defined)
                        reads_ok(t.value, defined)
                    elif isinstance(t, (ast.Tuple, ast.List)) and all(isinstance(e, ast.Name) for e in t.elts):
                        defined |= {e.id for e in t.elts}
                    else:
                        raise TranslatorUnsupported(f"line {st.lineno}: assignment target inside a summarised loop")
            elif isinstance(st, ast.AugAssign):
                if not isinstance(st.target, ast.Name):
                    raise TranslatorUnsupported(f"line {st.lineno}: augmented assignment target inside a summarised loop")
                reads_ok(st.value, defined)
                if st.target.id not in defined:
                    raise TranslatorUnsupported(f"line {st.lineno}: `{st.target.id}` is updated before it is assigned")
            elif isinstance(st, ast.For):
                if not isinstance(st.target, ast.Name) or st.orelse:
                    raise TranslatorUnsupported(f"line {st.lineno}: nested loop form inside a summarised loop")
                reads_ok(st.iter, defined)
                block(st.body, defined | {st.target.id})
            elif isinstance(st, ast.If):
                reads_ok(st.test, defined)
                d1, d2 = block(st.body, defined), block(st.orelse, defined)
                defined |= (d1 & d2)
            elif isinstance(st, ast.Expr):
                reads_ok(st.value, defined)
            elif isinstance(st, ast.Pass):
                pass
            else:
                raise TranslatorUnsupported(f"line {st.lineno}: {type(st).__name__} inside a summarised loop")
        return defined

    block(loop.body, _stores(loop.target))

    def dead_outside(node, bound):
        if node is loop:
            return
        b = set(bound)
        if isinstance(node, ast.For):
            b |= _stores(node.target)
        if isinstance(node, _COMP):
            for g in node.generators:
                b |= _stores(g.target)
        if (isinstance(node, ast.Name) and isinstance(node.ctx, ast.Load) and node.id in assigned
                and node.id not in b and node.id not in exempt):
            raise TranslatorUnsupported(
                f"line {node.lineno}: `{node.id}`, assigned inside the loop at line {loop.lineno}, is read outside it")
        for ch in ast.iter_child_nodes(node):
            dead_outside(ch, b)

    dead_outside(fdef, set())
    return free


def analyse(fn):
    src = textwrap.dedent(inspect.getsource(fn))
    tree = ast.parse(src)
    ast.increment_lineno(tree, fn.__code__.co_firstlineno - 1)
    fdef = tree.body[0]
    if not isinstance(fdef, ast.FunctionDef) or fdef.decorator_list:
        raise TranslatorUnsupported("elasticity_components is not a plain function")
    if len(fdef.args.args) != 1 or fdef.args.vararg or fdef.args.kwarg or fdef.args.kwonlyargs:
        raise TranslatorUnsupported("elasticity_components does not take exactly one argument")
    param = fdef.args.args[0].arg
    local_names = set(fn.__code__.co_varnames)

    # ---- the loop over the series: `for m, matrix in enumerate(<param>)`, a statement of the function body
    outers = [s for s in fdef.body if isinstance(s, ast.For)]
    if len(outers) != 1:
        raise TranslatorUnsupported("elasticity_components: expected exactly one top-level loop over the series")
    outer = outers[0]
    t, it = outer.target, outer.iter
    if not (isinstance(t, ast.Tuple) and len(t.elts) == 2 and all(isinstance(e, ast.Name) for e in t.elts)
            and isinstance(it, ast.Call) and isinstance(it.func, ast.Name) and it.func.id == "enumerate"
            and len(it.args) == 1 and not it.keywords and isinstance(it.args[0], ast.Name) and it.args[0].id == param)\
            or outer.orelse:
        raise TranslatorUnsupported(f"the loop over the series is not `for m, matrix in enumerate({param})`")
    mvar, matvar = t.elts[0].id, t.elts[1].id
    # the statements around it: nothing symbolic may happen there (they are traced in full anyway), and the
    # function returns the dictionary of output arrays
    last = fdef.body[-1]
    if not (fdef.body.index(outer) == len(fdef.body) - 2 and isinstance(last, ast.Return) and isinstance(last.value, ast.Name)):
        raise TranslatorUnsupported("elasticity_components does not end with the loop over the series and `return <dict>`")
    outname = last.value.id
    for n in ast.walk(fdef):
        if isinstance(n, ast.Name) and n.id == param and not (n is it.args[0] or _is_len_of(fdef, n)):
            raise TranslatorUnsupported(f"line {n.lineno}: `{param}` is used other than by len() and the loop over it")

    # ---- the pairing loop: `for i in range(3)` storing W[:, i] once, a statement of the outer loop's body
    def col_store(st, var):
        if not (isinstance(st, ast.Assign) and len(st.targets) == 1 and isinstance(st.targets[0], ast.Subscript)):
            return None
        tg = st.targets[0]
        if not (isinstance(tg.value, ast.Name) and isinstance(tg.slice, ast.Tuple) and len(tg.slice.elts) == 2):
            return None
        a, b = tg.slice.elts
        if (isinstance(a, ast.Slice) and a.lower is None and a.upper is None and a.step is None
                and isinstance(b, ast.Name) and b.id == var):
            return tg.value.id
        return None

    found = []
    for k, st in enumerate(outer.body):
        if isinstance(st, ast.For) and isinstance(st.target, ast.Name):
            ws = [w for w in (col_store(s, st.target.id) for s in st.body) if w]
            if ws:
                found.append((k, st, ws))
    if len(found) != 1 or len(found[0][2]) != 1:
        raise TranslatorUnsupported("elasticity_components: expected exactly one loop storing W[:, i] once per iteration")
    k, loop, (W,) = found[0]
    li = loop.iter
    if not (isinstance(li, ast.Call) and isinstance(li.func, ast.Name) and li.func.id == "range" and len(li.args) == 1
            and not li.keywords and isinstance(li.args[0], ast.Constant) and li.args[0].value == 3) or loop.orelse:
        raise TranslatorUnsupported("the pairing loop is not `for i in range(3)`")
    allocs = [s for s in outer.body[:k] if isinstance(s, ast.Assign) and len(s.targets) == 1
              and isinstance(s.targets[0], ast.Name) and s.targets[0].id == W]
    if len(allocs) != 1 or not _is_call(allocs[0].value, "np", "empty"):
        raise TranslatorUnsupported(f"the work array {W} is not allocated by np.empty before the pairing loop")
    the_store = [s for s in loop.body if col_store(s, loop.target.id) == W][0].targets[0]
    for n in ast.walk(fdef):
        if isinstance(n, ast.Name) and n.id == W:
            inside = loop.lineno <= n.lineno <= loop.end_lineno
            if inside and n is not the_store.value:
                raise TranslatorUnsupported(f"{W} is used inside the pairing loop other than by the column store")
            if not inside and not isinstance(n.ctx, ast.Load) and n is not allocs[0].targets[0]:
                raise TranslatorUnsupported(f"{W} is stored to outside the pairing loop")
    free = _check_loop(fdef, loop, local_names, lambda sub: sub is the_store, {W})
    if not free:
        raise TranslatorUnsupported("the pairing loop has no free variables")

    # ---- the loop over the series: outputs are out[<key>][m] / out[<key>][m, ...]
    def row_store(sub):
        if sub is the_store:
            return True
        v, sl = sub.value, sub.slice
        if not (isinstance(v, ast.Subscript) and isinstance(v.value, ast.Name) and v.value.id == outname
                and isinstance(v.slice, ast.Constant) and isinstance(v.slice.value, str)):
            return False
        if isinstance(sl, ast.Name):
            return sl.id == mvar
        return (isinstance(sl, ast.Tuple) and len(sl.elts) == 2 and isinstance(sl.elts[0], ast.Name)
                and sl.elts[0].id == mvar and isinstance(sl.elts[1], ast.Constant) and sl.elts[1].value is Ellipsis)

    # `out` may only appear inside the loop as the base of such a store
    store_bases = {id(n.value.value) for n in ast.walk(outer)
                   if isinstance(n, ast.Subscript) and not isinstance(n.ctx, ast.Load) and n is not the_store
                   and isinstance(n.value, ast.Subscript)}
    for n in ast.walk(outer):
        if isinstance(n, ast.Name) and n.id == outname and id(n) not in store_bases:
            raise TranslatorUnsupported(f"line {n.lineno}: `{outname}` is read inside the loop over the series")
    ofree = _check_loop(fdef, outer, local_names, row_store, {outname})
    if ofree:
        raise TranslatorUnsupported(f"one matrix of the series is processed using {ofree}, which the loop does not assign")
    return dict(loop=(loop.lineno, loop.end_lineno), outer=(outer.lineno, outer.end_lineno),
                alloc_line=allocs[0].lineno, free=tuple(free), W=W, outname=outname, mvar=mvar, matvar=matvar)


def _is_len_of(fdef, name_node):
    for n in ast.walk(fdef):
        if (isinstance(n, ast.Call) and isinstance(n.func, ast.Name) and n.func.id == "len" and len(n.args) == 1
                and n.args[0] is name_node and not n.keywords):
            return True
    return False


# ---------------------------------------------------------------------------------------
# substitution of nodes (segment parameters for the values the loop's free variables held)
# ---------------------------------------------------------------------------------------
_SEG_CALLS: dict = {}


class Subst:
    def __init__(self, mapping, params):
        self.map = dict(mapping)        # node id -> replacement node
        self.params = set(params)
        self.calls = {}                 # old call id -> new CallNode
        self.memo = {}

    def call(self, c):
        if c.id in self.calls:
            return self.calls[c.id]
        args = []
        for a in c.args:
            if a[0] == "arr":
                args.append(("arr", [self.node(e) for e in a[1]], a[2]))
            elif a[0] == "scalar":
                args.append(("scalar", self.node(a[1])))
            else:
                raise TranslatorUnsupported(f"segment call argument kind {a[0]}")
        new = CallNode(c.fname, c.cname, args, c.sig)
        got = _SEG_CALLS.get(new.key)
        if got is None:
            _SEG_CALLS[new.key] = new
            got = new
        else:
            CallNode._n -= 1
        self.calls[c.id] = got
        for (cid, path), shp in list(T.CALLOUT_SHAPES.items()):
            if cid == c.id:
                T.CALLOUT_SHAPES[(got.id, path)] = shp
        return got

    def node(self, n):
        if n.id in self.map:
            return self.map[n.id]
        r = self.memo.get(n.id)
        if r is not None:
            return r
        if n.op == "callout":
            cid, path, idx = n.args
            if cid not in self.calls:
                raise TranslatorUnsupported("iteration of the pairing loop depends on a value computed outside it "
                                            "that is not one of its free variables")
            r = Node("callout", self.calls[cid].id, path, idx)
        elif n.op in ("elt", "var"):
            if n.args[0] not in self.params:
                raise TranslatorUnsupported("iteration of the pairing loop depends on an input that is not one of "
                                            "its free variables")
            r = n
        else:
            r = Node(n.op, *[self.node(a) if isinstance(a, Node) else a for a in n.args])
        self.memo[n.id] = r
        return r

    def events(self, evs):
        out = []
        for ev in evs:
            if ev[0] == "dec":
                c = ev[1]
                out.append(("dec", Cond(c.op, self.node(c.a), self.node(c.b)), ev[2]))
            else:
                out.append(("call", self.call(ev[1])))
        return out


# ---------------------------------------------------------------------------------------
class DecompTranslation(Translation):
    def _make_args(self, spec, statics, perm):
        shared, special = [], {}
        for i, (name, kind, info) in enumerate(spec.params):
            if kind == "oracle":
                special[i] = OracleParam(name)
            else:
                shared.append((name, kind, info))
        base = Translation._make_args(self, Spec(spec.module, spec.pyname, shared), statics, perm)
        out, it = [], iter(base)
        for i in range(len(spec.params)):
            out.append(special[i] if i in special else next(it))
        return out


def _store_column(W, key, value):
    """W[:, i] = value, executed by the pairing loop"""
    i = CTX.writes
    f = _ec_frame_here()
    if f is None or not (CTX.loop[0] <= f.f_lineno <= CTX.loop[1]):
        raise TranslatorUnsupported("the work array of the pairing loop is stored to from outside the loop")
    if not (isinstance(key, tuple) and len(key) == 2 and key[0] == slice(None) and isinstance(key[1], int)
            and not isinstance(key[1], bool) and key[1] == i and i < 3):
        raise TranslatorUnsupported(f"store number {i} into the work array of the pairing loop has index {key!r}")
    if not isinstance(value, _np.ndarray) or value.shape != (3,):
        raise TranslatorUnsupported("the value stored into a column of the work array is not a 3-vector")
    vals = nodes_of(value, "column store")
    freevals = []
    for name in CTX.free:
        if name not in f.f_locals:
            raise TranslatorUnsupported(f"free variable {name} of the pairing loop is unbound")
        v = f.f_locals[name]
        if not isinstance(v, DArr) or v.shape != (3, 3):
            raise TranslatorUnsupported(f"free variable {name} of the pairing loop is not a 3x3 array")
        freevals.append((name, nodes_of(v, name)))
    CTX.writes = i + 1
    if CTX.mode == "top" or CTX.matrix != 0:
        return value                    # inside an unrecorded region: the row is replaced as a whole later
    if CTX.mode == "row":
        d = CTX.tr.ensure_segment(i)
        cargs = [("arr", ns, (3, 3)) for _, ns in freevals]
        sig = {"ret": d["ret"], "fallible": d["fallible"]}
        call = TRACER.call_event(CallNode(d["spec"].pyname, d["cname"], cargs, sig))
        return to_nf(_mk_callouts(call, d["ret"]))
    if CTX.mode[1] == i:
        raise SegmentDone(vals, freevals)
    return value


def translations():
    import pydrex.diagnostics as dg
    import specs_tensors

    (_, ttr, _src), = [t for t in specs_tensors.translations() if t[0] == "Gen_tensors"]

    ad = types.ModuleType("pydrex_decomp_adapters")
    ad.np = None
    tr = DecompTranslation(ad, [])
    tr.header_extra = "From PV.gen Require Import Gen_tensors.\n"
    proxy = DecompNumpy()

    real_ec = dg.__dict__["elasticity_components"]
    real_angle = getattr(dg.__dict__["smallest_angle"], "py_func", dg.__dict__["smallest_angle"])
    if not isinstance(real_ec, types.FunctionType):
        raise TranslatorUnsupported("elasticity_components is not a plain Python function")

    def want_sig(f, names, defaults):
        ps = list(inspect.signature(f).parameters.values())
        if [p.name for p in ps] != names or [p.default for p in ps if p.default is not p.empty] != defaults:
            raise TranslatorUnsupported(
                f"{f.__name__}: signature {[(p.name, p.default) for p in ps]} differs from {names} / defaults {defaults}")

    want_sig(real_ec, ["voigt_matrices"], [])
    want_sig(real_angle, ["vector", "axis", "plane"], [None])

    info = analyse(real_ec)
    CTX.code, CTX.loop, CTX.alloc_line, CTX.free, CTX.tr = real_ec.__code__, info["loop"], info["alloc_line"], info["free"], tr
    CTX.outer, CTX.outname = info["outer"], info["outname"]

    def register(pyname, fn, params, cname):
        ad.__dict__[pyname] = fn
        tr.orig[pyname] = fn
        tr.specs[pyname] = Spec(ad, pyname, params, cname=cname)

    # ---- calls (recorded only when they belong to the definition being traced)
    def emit_call(fname, cname, cargs, ret, fallible):
        sig = {"ret": ret, "fallible": fallible}
        if _recording():
            call = TRACER.call_event(CallNode(fname, cname, cargs, sig))
        else:
            call = CallNode(fname, cname, cargs, sig)       # result is discarded with the unrecorded region
        return wrap(_mk_callouts(call, ret))

    def tensors_stub(pyname):
        spec = ttr.specs[pyname]
        d = ttr.defs[spec.cname]
        shapes = [(n, tuple(i)) for n, k, i in spec.params]
        if any(k != "arr" for _, k, _ in spec.params):
            raise TranslatorUnsupported(f"pydrex.tensors.{pyname}: non-array parameter")

        def stub(*actual, **kw):
            actual = list(actual) + [kw.pop(n) for n, _ in shapes[len(actual):] if n in kw]
            if kw or len(actual) != len(shapes):
                raise TranslatorUnsupported(f"call of pydrex.tensors.{pyname} with unexpected arguments")
            cargs = [arr_arg(a, shp, f"pydrex.tensors.{pyname}({n})") for a, (n, shp) in zip(actual, shapes)]
            return emit_call(pyname, d["cname"], cargs, d["ret"], d["fallible"])
        return stub

    glue_tensors = _Closed("pydrex.tensors", **{nm: tensors_stub(nm) for nm in (
        "upper_tri_to_symmetric", "voigt_decompose", "voigt_matrix_to_vector", "voigt_to_elastic_tensor",
        "elastic_tensor_to_voigt", "rotate", "mono_project", "ortho_project", "tetr_project", "hex_project")})

    def la_eigh(*a, **kw):
        if len(a) != 1 or kw:
            raise TranslatorUnsupported(f"la.eigh called with arguments {a[1:]} {kw}: the oracle stands for the "
                                        "default call (lower triangle, full spectrum, eigenvectors)")
        ret = ("tuple", (("arr", (3,)), ("arr", (3, 3))))
        return emit_call("eigh", "eigh", [arr_arg(a[0], (3, 3), "la.eigh")], ret, False)

    glue_la = _Closed("scipy.linalg", eigh=la_eigh, norm=vnorm)

    def call_angle(vector, axis, *a, **kw):
        if a or kw:
            raise TranslatorUnsupported("smallest_angle called with a plane")
        d = tr.ensure("ec_smallest_angle", {})
        cargs = [arr_arg(vector, (3,), "smallest_angle(vector)"), arr_arg(axis, (3,), "smallest_angle(axis)")]
        return emit_call("ec_smallest_angle", d["cname"], cargs, d["ret"], d["fallible"])

    # ---- adapters
    def from_nf(x):
        if isinstance(x, NF):
            return x.n
        raise TranslatorUnsupported(f"return value of type {type(x).__name__}")

    def smallest_angle(vector, axis):
        v, a = to_nf(vector), to_nf(axis)
        snap = [list(v), list(a)]
        old = (CTX.mode, CTX.div_raises)
        CTX.mode, CTX.div_raises = "plain", True
        try:
            out = real_angle(v, a)
        finally:
            CTX.mode, CTX.div_raises = old
        if any(x is not y for s, arr in zip(snap, (v, a)) for x, y in zip(s, arr)):
            raise TranslatorUnsupported("smallest_angle mutates its arguments")
        return from_nf(out)

    def fresh_series(mats):
        ser = _darr((len(mats), 6, 6))
        for m, a in enumerate(mats):
            ser[m] = to_nf(a)
        return ser

    def run_real(ser, mode):
        old = (CTX.mode, CTX.work, CTX.writes, CTX.matrix, CTX.div_raises, CTX.flags, CTX.series)
        CTX.mode, CTX.work, CTX.writes, CTX.matrix, CTX.div_raises, CTX.flags, CTX.series = mode, None, 0, 0, False, [], ser
        snap = list(ser.reshape(-1))
        try:
            out = real_ec(_Series(ser))
        finally:
            flags = CTX.flags
            CTX.mode, CTX.work, CTX.writes, CTX.matrix, CTX.div_raises, CTX.flags, CTX.series = old
        if any(x is not y for x, y in zip(snap, ser.reshape(-1))):
            raise TranslatorUnsupported("elasticity_components writes into its input series")
        return out, flags

    def out_arrays(f):
        out = f.f_locals.get(CTX.outname)
        if not isinstance(out, dict) or list(out.keys()) != OUT_KEYS:
            raise TranslatorUnsupported(f"`{CTX.outname}` is not the dictionary of the nine output arrays: "
                                        f"{list(out.keys()) if isinstance(out, dict) else type(out).__name__}")
        n = len(CTX.series)
        for k in OUT_KEYS[:8]:
            if not isinstance(out[k], DArr) or out[k].shape != (n,):
                raise TranslatorUnsupported(f"output {k} has shape {getattr(out[k], 'shape', None)}")
        if not isinstance(out[OUT_KEYS[8]], DArr) or out[OUT_KEYS[8]].shape != (n, 3):
            raise TranslatorUnsupported("output hexagonal_axis has the wrong shape")
        return out

    def row_of(out, m):
        return [out[k][m] for k in OUT_KEYS[:8]] + list(out[OUT_KEYS[8]][m])

    class _Series:
        """what elasticity_components may do with its argument: len() and iteration (one 6x6 array per step).
        The end of iteration m of the loop over the series is where row m of the output arrays is complete."""

        def __init__(self, ser):
            self.ser = ser

        def __len__(self):
            return len(self.ser)

        def __iter__(self):
            n = len(self.ser)
            for m in range(n):
                CTX.matrix, CTX.work, CTX.writes = m, None, 0
                f = _ec_frame_here()
                if f is None:
                    raise TranslatorUnsupported("the series is iterated outside elasticity_components")
                out = out_arrays(f)
                others = [id(e) for mm in range(n) if mm != m for e in row_of(out, mm)]
                yield self.ser[m]
                f = _ec_frame_here()
                if f is None or not (CTX.outer[0] <= f.f_lineno <= CTX.outer[1]):
                    raise TranslatorUnsupported("the series is iterated by something other than the loop over the series")
                out = out_arrays(f)
                if others != [id(e) for mm in range(n) if mm != m for e in row_of(out, mm)]:
                    raise TranslatorUnsupported(f"processing matrix {m} of the series wrote into the row of another matrix")
                row = row_of(out, m)
                if any(isinstance(e, Uninit) for e in row[:3]):
                    raise TranslatorUnsupported("bulk / shear modulus or percent anisotropy left uninitialised")
                un = [isinstance(e, Uninit) for e in row[3:]]
                if any(un) and not all(un):
                    raise TranslatorUnsupported("percentages / axis of one matrix are partly initialised")
                if CTX.mode == "row":
                    raise RowDone(None if all(un) else [_n(e) for e in row])
                if CTX.mode == "top":
                    d = tr.ensure("ec_row", {})
                    cargs = [("oracle", "eigh"), arr_arg(self.ser[m], (6, 6), "series entry")]
                    call = TRACER.call_event(CallNode("ec_row", d["cname"], cargs,
                                                      {"ret": d["ret"], "fallible": d["fallible"]}))
                    flag, vals = _mk_callouts(call, d["ret"])
                    CTX.flags.append(flag[0])
                    for j, k in enumerate(OUT_KEYS[:8]):
                        out[k][m] = NF(vals[j])
                    for j in range(3):
                        out[OUT_KEYS[8]][m, j] = NF(vals[8 + j])

        def __getattr__(self, name):
            raise TranslatorUnsupported(f"elasticity_components uses voigt_matrices.{name}")

        def __getitem__(self, k):
            raise TranslatorUnsupported("elasticity_components indexes voigt_matrices")

    def mk_top(n):
        def ec(eigh, *mats):
            out, flags = run_real(fresh_series(mats), "top")
            if not isinstance(out, dict) or list(out.keys()) != OUT_KEYS:
                raise TranslatorUnsupported(f"elasticity_components returns {type(out).__name__} with keys "
                                            f"{list(out.keys()) if isinstance(out, dict) else None}")
            for k in OUT_KEYS[:8]:
                if not isinstance(out[k], DArr) or out[k].shape != (n,):
                    raise TranslatorUnsupported(f"output {k} has shape {getattr(out[k], 'shape', None)}")
            if not isinstance(out[OUT_KEYS[8]], DArr) or out[OUT_KEYS[8]].shape != (n, 3):
                raise TranslatorUnsupported("output hexagonal_axis has the wrong shape")
            if len(flags) != n:
                raise TranslatorUnsupported(f"{len(flags)} iterations of the loop over a series of {n}")
            rows = []
            for m in range(n):
                rows += nodes_of(_np.array(row_of(out, m), dtype=object), "returned row")
            fa, ra = _np.empty(n, dtype=object), _np.empty(11 * n, dtype=object)
            fa[:], ra[:] = flags, rows
            return (fa, ra)
        return ec

    def ec_row(eigh, matrix):
        try:
            run_real(fresh_series([matrix]), "row")
        except RowDone as e:
            row = e.row
        else:
            raise TranslatorUnsupported("the loop over the series never finished its first iteration")
        fa, ra = _np.empty(1, dtype=object), _np.empty(11, dtype=object)
        fa[:] = [CONST(0 if row is None else 1)]
        ra[:] = [CONST(0)] * 11 if row is None else row
        return (fa, ra)

    def mk_seg(i):
        def seg(*params):
            M = _np.empty(36, dtype=object)
            for k in range(36):
                M[k] = Node("elt", "__matrix", k)
            st = TRACER.cur
            try:
                run_real(fresh_series([M.reshape(6, 6)]), ("seg", i))
            except RowDone:
                raise TranslatorUnsupported(f"the pairing loop never stored column {i}")
            except SegmentDone as e:
                done = e
            else:
                raise TranslatorUnsupported(f"the pairing loop never stored column {i}")
            mapping = {}
            for (name, ns), p in zip(done.freevals, params):
                for k, nd in enumerate(ns):
                    mapping.setdefault(nd.id, p.reshape(-1)[k])
            sb = Subst(mapping, CTX.free)
            st["events"][:] = sb.events(st["events"])
            out = _np.empty(3, dtype=object)
            out[:] = [sb.node(v) for v in done.value]
            return out
        return seg

    def ensure_segment(i):
        d = tr.ensure(f"ec_sccs_col_{i}", {})
        if d.get("pending"):
            raise TranslatorUnsupported("recursive segment")
        return d

    tr.ensure_segment = ensure_segment

    V = lambda nm: (nm, "arr", (3,))  # noqa: E731
    register("ec_smallest_angle", smallest_angle, [V("vector"), V("axis")], "k_ec_smallest_angle")
    for i in range(3):
        register(f"ec_sccs_col_{i}", mk_seg(i), [(nm, "arr", (3, 3)) for nm in CTX.free], f"k_ec_sccs_col_{i}")
    names = ["ec_smallest_angle"] + [f"ec_sccs_col_{i}" for i in range(3)] + ["ec_row"]
    register("ec_row", ec_row, [("eigh", "oracle", EIGH_T), ("matrix", "arr", (6, 6))], "k_ec_row")
    for n in N_SERIES:
        nm = f"elasticity_components_n{n}"
        register(nm, mk_top(n), [("eigh", "oracle", EIGH_T)] + [(f"M{m}", "arr", (6, 6)) for m in range(n)], "k_" + nm)
        names.append(nm)

    rebinding = [(dg, "np", proxy), (dg, "la", glue_la), (dg, "_tensors", glue_tensors), (dg, "smallest_angle", call_angle)]
    saved = [(mod, k, mod.__dict__[k]) for mod, k, _ in rebinding]
    import emit_coq
    texts = {}
    try:
        for mod, k, v in rebinding:
            mod.__dict__[k] = v
        for pol in (True, False):
            CTX.polarity = pol
            tr.defs, tr.order = {}, []
            for nm in names:
                tr.ensure(nm, {})
            texts[pol] = emit_coq.emit_module(tr, "", "")
    finally:
        for mod, k, v in saved:
            mod.__dict__[k] = v
        CTX.mode = "plain"
    if texts[True] != texts[False]:
        raise TranslatorUnsupported("the generated definitions depend on the answers given to the decisions of the "
                                    "pairing loop that are not recorded: an iteration of the loop is not a function "
                                    "of its free variables")
    return [("Gen_decomp", tr, dg.__file__)]
