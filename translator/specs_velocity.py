"""Translator specs for the C18 group.

Gen_velocity.v  <- pydrex/velocity.py: the six numba kernels `_simple_shear_2d[_grad]`,
  `_cell_2d[_grad]`, `_corner_2d[_grad]`, each specialised to the six ordered axis-index pairs
  the public wrappers can pass (indices are Python ints used for indexing: `const`
  parameters; definitions are named k_<kernel>_<i><j>), both branches of every domain test;
  and `to_indices2d_ord`, the axis-letter table of pydrex.geometry.to_indices2d read off by
  calling the real function on the letters "X" "Y" "Z" (ordinals 0 1 2; a thin adapter
  defined below maps ordinals to letters, everything else is the source).
Gen_velocity_utils.v <- pydrex/utils.py: `strain_increment` over the eigenvalue ORACLE: the
  call np.linalg.eigvalsh(M) is checked (structurally) to be applied to (L + L^T)/2 and the
  expression abs(eigvalsh(..)).max() is replaced by the extra scalar parameter `eigmax`.

Nothing in symtrace.py is changed: `VelProxy` below subclasses the shared ProxyNumpy and adds
np.full (np.full(n, np.nan) is a non-finite return: error leaf NonFinite) and a `np.pi` that is
known to be non-zero (`a / np.pi` is a plain division, no dead `pi == 0` branch).
"""
from __future__ import annotations

import types

import numpy as _np

from symtrace import (CONST, Node, ProxyLinalg, ProxyNumpy, SArr, Spec, Translation,
                      TranslatorUnsupported, lift, _obj)

PAIRS = [(0, 1), (0, 2), (1, 0), (1, 2), (2, 0), (2, 1)]


class PiNode(Node):
    """np.pi as a symbolic constant that is statically non-zero: `a / np.pi` does not fork on
    `pi == 0` (the shared tracer forks on every non-literal denominator; the branch would be
    dead, and `eqb npi zero` has no inferable Num instance in the emitted Gallina)."""

    def __new__(cls):
        n = object.__new__(cls)
        n.op, n.args, n.key = "pi", (), ("pi", "nonzero")
        Node._count += 1
        n.id = Node._count
        return n

    def __rtruediv__(self, o):
        if isinstance(o, _np.ndarray):
            return NotImplemented
        a = lift(o)
        if a.is_const and a.args[0] == 0:
            return CONST(0)
        if a.is_inf:
            raise TranslatorUnsupported("inf / pi")
        return Node("div", a, self)

    def __hash__(self):
        return hash(self.key)


class VelProxy(ProxyNumpy):
    def __init__(self):
        super().__init__()
        self.pi = PiNode()

    def full(self, shape, value, dtype=None):
        a = _np.empty(self._shape(shape), dtype=object).view(SArr)
        v = lift(value)  # np.nan raises NonFiniteValue here
        a.reshape(-1)[:] = [v] * a.size
        return a


# ---------------------------------------------------------------------------------------
# strain_increment over the eigenvalue oracle
# ---------------------------------------------------------------------------------------
class _EigVals:
    def __init__(self, owner):
        self.owner = owner


class _AbsEigVals:
    def __init__(self, owner):
        self.owner = owner

    def max(self):
        return self.owner.eigmax


class OracleLinalg(ProxyLinalg):
    def __init__(self):
        self.L = None
        self.eigmax = None

    def eigvalsh(self, m):
        m = _obj(m)
        L = self.L
        if L is None or m.shape != (3, 3):
            raise TranslatorUnsupported("eigvalsh outside strain_increment")
        for i in range(3):
            for j in range(3):
                want = (L[i, j] + L[j, i]) / 2
                if m[i, j] is not want:
                    raise TranslatorUnsupported(
                        "eigvalsh is not applied to (L + L^T)/2 (entry %d,%d)" % (i, j))
        return _EigVals(self)


class UtilsProxy(ProxyNumpy):
    def __init__(self):
        super().__init__()
        self.linalg = OracleLinalg()

    def abs(self, x):
        if isinstance(x, _EigVals):
            return _AbsEigVals(x.owner)
        return super().abs(x)


def translations():
    import pydrex.geometry as geo
    import pydrex.utils as utils
    import pydrex.velocity as vel

    S = "scalar"
    out = []

    # ---- the six kernels x six axis pairs
    tr = Translation(vel, [])
    tr.proxy = VelProxy()
    sigs = {
        "_simple_shear_2d": ("direction", "deformation_plane", [("strain_rate", S, None)]),
        "_simple_shear_2d_grad": ("direction", "deformation_plane", [("strain_rate", S, None)]),
        "_cell_2d": ("horizontal", "vertical", [("velocity_edge", S, None), ("edge_length", S, None)]),
        "_cell_2d_grad": ("horizontal", "vertical", [("velocity_edge", S, None), ("edge_length", S, None)]),
        "_corner_2d": ("horizontal", "vertical", [("plate_speed", S, None)]),
        "_corner_2d_grad": ("horizontal", "vertical", [("plate_speed", S, None)]),
    }
    kspecs = {}
    for pyname, (a, b, rest) in sigs.items():
        for (i, j) in PAIRS:
            spec = Spec(vel, pyname,
                        [("t", S, None), ("x", "arr", (3,)), (a, "const", i), (b, "const", j)] + rest,
                        cname=f"k_{pyname.lstrip('_')}_{i}{j}")
            kspecs[(pyname, i, j)] = spec
            tr.specs[pyname] = spec
            tr.ensure(pyname, {})
            del tr.specs[pyname]

    # ---- the axis-letter table (adapter: ordinal -> letter, then the real to_indices2d)
    ad = types.ModuleType("pydrex_velocity_adapters")
    ad.np = None
    real_to_indices2d = geo.to_indices2d
    letters = ("X", "Y", "Z")

    def to_indices2d_ord(horizontal, vertical):
        ls = []
        for o in (horizontal, vertical):
            if o == 0:
                ls.append(letters[0])
            elif o == 1:
                ls.append(letters[1])
            elif o == 2:
                ls.append(letters[2])
            else:
                raise ValueError("not an axis letter")
        i, j = real_to_indices2d(ls[0], ls[1])
        return ad.np.array([i, j])

    ad.to_indices2d_ord = to_indices2d_ord
    tr.module = ad  # the tracer rebinds `np` in this namespace from now on
    spec = Spec(ad, "to_indices2d_ord", [("horizontal", "enum", None), ("vertical", "enum", None)])
    tr.specs["to_indices2d_ord"] = spec
    tr.ensure("to_indices2d_ord", {})
    del tr.specs["to_indices2d_ord"]

    # ---- the PUBLIC wrappers simple_shear_2d / cell_2d / corner_2d: the real function is called with
    #      the letters of the two ordinals (0 1 2 = "X" "Y" "Z", 3 4 5 = "x" "y" "z": 36 letter pairs),
    #      then the velocity (which = 0) or the gradient (which = 1) callable it returned is applied to
    #      symbolic (t, x).  While a wrapper runs, the six kernels of pydrex.velocity are replaced by
    #      dispatchers that turn the call made by the functools.partial object into a call of the
    #      generated kernel k_<kernel>_<i><j> for the index pair it receives (anything but a pair of
    #      distinct Python ints 0..2 fails closed).
    letters6 = ("X", "Y", "Z", "x", "y", "z")

    def letter(o):
        for k in range(6):
            if o == k:
                return letters6[k]
        raise ValueError("not an axis letter")

    def dispatcher(kname):
        a_name, b_name, rest = sigs[kname]
        names = ["t", "x", a_name, b_name] + [r[0] for r in rest]

        def disp(*actual, **kw):
            if len(actual) > len(names) or set(kw) != set(names[len(actual):]):
                raise TranslatorUnsupported(f"{kname} called with {len(actual)} positional and keyword arguments {sorted(kw)}")
            vals = list(actual) + [kw[n] for n in names[len(actual):]]
            i, j = vals[2], vals[3]
            if not all(isinstance(v, int) and not isinstance(v, bool) for v in (i, j)) or (i, j) not in PAIRS:
                raise TranslatorUnsupported(f"{kname} called with the index pair ({i!r}, {j!r})")
            spec = kspecs[(kname, i, j)]
            tr.specs[kname] = spec
            try:
                return tr._stub(spec)(*vals)
            finally:
                del tr.specs[kname]
        return disp

    def mk_wrap(flow, which, nparams):
        real_wrapper = vel.__dict__[flow]

        def wrap(horizontal, vertical, *rest):
            ps, (t, x) = rest[:nparams], rest[nparams:]
            hl, vl = letter(horizontal), letter(vertical)
            saved = {k: vel.__dict__[k] for k in sigs}
            for k in sigs:
                vel.__dict__[k] = dispatcher(k)
            try:
                pair = real_wrapper(hl, vl, *ps)
                if not (isinstance(pair, tuple) and len(pair) == 2 and all(callable(c) for c in pair)):
                    raise TranslatorUnsupported(f"{flow} does not return a pair of callables")
                return pair[which](t, x)
            finally:
                for k, v in saved.items():
                    vel.__dict__[k] = v
        return wrap

    wrappers = {"simple_shear_2d": [("strain_rate", S, None)],
                "cell_2d": [("velocity_edge", S, None), ("edge_length", S, None)],
                "corner_2d": [("plate_speed", S, None)]}
    for flow, params in wrappers.items():
        variants = [("", params)]
        if flow == "cell_2d":
            variants.append(("_default", params[:1]))         # edge_length left at its default
        for tag, pp in variants:
            for which, suffix in ((0, "u"), (1, "L")):
                name = f"{flow}_wrap_{suffix}{tag}"
                ad.__dict__[name] = mk_wrap(flow, which, len(pp))
                spec = Spec(ad, name, [("horizontal", "enum", None), ("vertical", "enum", None)] + pp
                            + [("t", S, None), ("x", "arr", (3,))], cname="k_" + name)
                tr.specs[name] = spec
                tr.ensure(name, {})
                del tr.specs[name]
    tr.module = vel
    out.append(("Gen_velocity", tr, vel.__file__))

    # ---- strain_increment over the oracle
    tr2, _ = utils_translation()
    out.append(("Gen_velocity_utils", tr2, utils.__file__))
    return out


def utils_translation():
    """(Translation, Spec) of `strain_increment` over the eigenvalue oracle; also used by
    specs_pathlines.py, whose traced event closure keeps `_utils.strain_increment(..)` as a call
    of the generated k_strain_increment."""
    import pydrex.utils as utils

    S = "scalar"
    tr2 = Translation(utils, [])
    tr2.proxy = UtilsProxy()
    real_si = utils.__dict__["strain_increment"]
    real_si = getattr(real_si, "py_func", real_si)
    linalg = tr2.proxy.linalg

    def strain_increment_oracle(dt, velocity_gradient, eigmax):
        linalg.L, linalg.eigmax = velocity_gradient, eigmax
        try:
            return real_si(dt, velocity_gradient)
        finally:
            linalg.L, linalg.eigmax = None, None

    utils.__dict__["strain_increment_oracle"] = strain_increment_oracle
    try:
        spec = Spec(utils, "strain_increment_oracle",
                    [("dt", S, None), ("velocity_gradient", "arr", (3, 3)), ("eigmax", S, None)],
                    cname="k_strain_increment")
        tr2.specs["strain_increment_oracle"] = spec
        tr2.ensure("strain_increment_oracle", {})
        del tr2.specs["strain_increment_oracle"]
    finally:
        del utils.__dict__["strain_increment_oracle"]
    return tr2, spec
