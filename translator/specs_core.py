"""Translator specs for pydrex.core (kernels below `derivatives`)."""
from symtrace import Spec, Translation


def translations():
    import pydrex.core as core

    S = "scalar"
    specs = [
        Spec(core, "get_crss", [("phase", "enum", None), ("fabric", "enum", None)]),
        Spec(core, "_get_slip_invariants",
             [("strain_rate", "arr", (3, 3)), ("orientation", "arr", (3, 3))]),
        Spec(core, "_get_deformation_rate",
             [("phase", "enum", None), ("orientation", "arr", (3, 3)), ("slip_rates", "arr", (4,))]),
        Spec(core, "_get_slip_rate_softest",
             [("deformation_rate", "arr", (3, 3)), ("velocity_gradient", "arr", (3, 3))]),
        Spec(core, "_get_slip_rates_olivine",
             [("invariants", "arr", (4,)), ("slip_indices", "perm4", None),
              ("crss", "static", None), ("deformation_exponent", S, None)]),
        Spec(core, "_get_orientation_change",
             [("orientation", "arr", (3, 3)), ("velocity_gradient", "arr", (3, 3)),
              ("deformation_rate", "arr", (3, 3)), ("slip_rate_softest", S, None)]),
        Spec(core, "_get_strain_energy",
             [("crss", "static", None), ("slip_rates", "arr", (4,)),
              ("slip_indices", "perm4", None), ("slip_rate_softest", S, None),
              ("stress_exponent", S, None), ("deformation_exponent", S, None),
              ("nucleation_efficiency", S, None)]),
        Spec(core, "_get_rotation_and_strain",
             [("phase", "enum", None), ("fabric", "enum", None),
              ("orientation", "arr", (3, 3)), ("strain_rate", "arr", (3, 3)),
              ("velocity_gradient", "arr", (3, 3)), ("stress_exponent", S, None),
              ("deformation_exponent", S, None), ("nucleation_efficiency", S, None)],
             inline=["get_crss"]),
    ]
    tr = Translation(core, specs)
    # get_crss itself is a table (Gen_tables); it is only inlined here.
    tr.trace_all([
        ("_get_slip_invariants", {}),
        ("_get_deformation_rate", {}),
        ("_get_slip_rate_softest", {}),
        ("_get_orientation_change", {}),
        ("_get_rotation_and_strain", {}),
    ])
    # derivatives at n_grains = 1, 2, 3
    for n in (1, 2, 3):
        spec = Spec(core, "derivatives",
                    [("regime", "enum", None), ("phase", "enum", None), ("fabric", "enum", None),
                     ("n_grains", "const", n),
                     ("orientations", "arr", (n, 3, 3)), ("fractions", "arr", (n,)),
                     ("strain_rate", "arr", (3, 3)), ("velocity_gradient", "arr", (3, 3)),
                     ("deformation_gradient_spin", "arr", (3, 3)),
                     ("stress_exponent", S, None), ("deformation_exponent", S, None),
                     ("nucleation_efficiency", S, None), ("gbm_mobility", S, None),
                     ("volume_fraction", S, None)],
                    cname=f"k_derivatives_n{n}")
        tr.specs["derivatives"] = spec
        tr.ensure("derivatives", {})
        del tr.specs["derivatives"]
    return [("Gen_core", tr, core.__file__)]


