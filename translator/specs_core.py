"""Translator specs for pydrex.core (kernels below `derivatives`).

Fail-closed guards (translator/srcguard.py, added after the seeded change C03d): the instance lemmas tie the
generated code to the list model at n_grains = 1, 2, 3, so (a) a module-level function of pydrex.core that is
called from the traced code but is not in the spec list below raises (no silent inlining of a new helper kernel),
and (b) the integer literals > 3 of the functions on the derivative path must be exactly the recorded ones
(`SIZE_LITERALS`: the 4 of the four slip systems) -- a new one could be a block size / stride / slice bound that
n <= 3 never crosses."""
from symtrace import Spec, Translation
import srcguard

# {function: {integer literal (> 3): number of occurrences}} on the path below `derivatives`
SIZE_LITERALS = {
    "_get_slip_rates_olivine": {4: 1}, "_get_slip_invariants": {4: 1}, "_get_rotation_and_strain": {4: 1},
}
DERIVATIVE_PATH = ["get_crss", "derivatives", "_get_deformation_rate", "_get_slip_rate_softest",
                   "_get_slip_rates_olivine", "_get_slip_invariants", "_get_orientation_change",
                   "_get_strain_energy", "_get_rotation_and_strain"]


def translations():
    import pydrex.core as core

    S = "scalar"
    specs = [
        Spec(core, "get_crss", [("phase", "enum", None), ("fabric", "enum", None)]),
        Spec(core, "_get_slip_invariants",
             [("strain_rate", "arr", (3, 3)), ("orientation", "arr", (3, 3))]),
        Spec(core, "_get_deformation_rate",
             [("phase", "enum", None), ("orientation", "arr", (3, 3)), ("slip_rates", "arr", (4,))]),
        Spec(core, "_get_slip_rate_softest",
             [("deformation_rate", "arr", (3, 3)), ("velocity_gradient", "arr", (3, 3))]),
        Spec(core, "_get_slip_rates_olivine",
             [("invariants", "arr", (4,)), ("slip_indices", "perm4", None),
              ("crss", "static", None), ("deformation_exponent", S, None)]),
        Spec(core, "_get_orientation_change",
             [("orientation", "arr", (3, 3)), ("velocity_gradient", "arr", (3, 3)),
              ("deformation_rate", "arr", (3, 3)), ("slip_rate_softest", S, None)]),
        Spec(core, "_get_strain_energy",
             [("crss", "static", None), ("slip_rates", "arr", (4,)),
              ("slip_indices", "perm4", None), ("slip_rate_softest", S, None),
              ("stress_exponent", S, None), ("deformation_exponent", S, None),
              ("nucleation_efficiency", S, None)]),
        Spec(core, "_get_rotation_and_strain",
             [("phase", "enum", None), ("fabric", "enum", None),
              ("orientation", "arr", (3, 3)), ("strain_rate", "arr", (3, 3)),
              ("velocity_gradient", "arr", (3, 3)), ("stress_exponent", S, None),
              ("deformation_exponent", S, None), ("nucleation_efficiency", S, None)],
             inline=["get_crss"]),
    ]
    tr = Translation(core, specs)
    srcguard.literal_guard(core.__file__, DERIVATIVE_PATH, SIZE_LITERALS)
    with srcguard.UnlistedCallGuard(core, DERIVATIVE_PATH):
        _trace(tr, core)
    return [("Gen_core", tr, core.__file__)]


def _trace(tr, core):
    S = "scalar"
    # get_crss itself is a table (Gen_tables); it is only inlined here.
    tr.trace_all([
        ("_get_slip_invariants", {}),
        ("_get_deformation_rate", {}),
        ("_get_slip_rate_softest", {}),
        ("_get_orientation_change", {}),
        ("_get_rotation_and_strain", {}),
    ])
    # derivatives at n_grains = 1, 2, 3
    for n in (1, 2, 3):
        spec = Spec(core, "derivatives",
                    [("regime", "enum", None), ("phase", "enum", None), ("fabric", "enum", None),
                     ("n_grains", "const", n),
                     ("orientations", "arr", (n, 3, 3)), ("fractions", "arr", (n,)),
                     ("strain_rate", "arr", (3, 3)), ("velocity_gradient", "arr", (3, 3)),
                     ("deformation_gradient_spin", "arr", (3, 3)),
                     ("stress_exponent", S, None), ("deformation_exponent", S, None),
                     ("nucleation_efficiency", S, None), ("gbm_mobility", S, None),
                     ("volume_fraction", S, None)],
                    cname=f"k_derivatives_n{n}")
        tr.specs["derivatives"] = spec
        tr.ensure("derivatives", {})
        del tr.specs["derivatives"]


