"""Modular symbolic tracer: PyDRex numeric kernels (current /repo source) -> Gallina.

One Python function -> one Gallina definition, polymorphic in `F : Num`.
The tracer imports the working tree with NUMBA_DISABLE_JIT=1, rebinds the module
level name ``np`` of the module under translation to a proxy numpy that works on
arrays of symbolic scalars, replaces the other kernels of the module by stubs (so
that calls stay calls) and enumerates all outcomes of data dependent branches.

Fail-closed: anything the proxy does not know raises TranslatorUnsupported.
"""
from __future__ import annotations

import itertools
import math
import os
import sys
from fractions import Fraction

import numpy as _np


class TranslatorUnsupported(Exception):
    pass


class NonFiniteValue(Exception):
    """An intermediate value is +-inf / nan for every input reaching this point."""


# --------------------------------------------------------------------------
# expression DAG
# --------------------------------------------------------------------------
class Node:
    __slots__ = ("op", "args", "key", "id")
    _table: dict = {}
    _count = 0

    def __new__(cls, op, *args):
        key = (op,) + tuple(a.id if isinstance(a, Node) else a for a in args)
        n = cls._table.get(key)
        if n is None:
            n = object.__new__(cls)
            n.op, n.args, n.key = op, args, key
            Node._count += 1
            n.id = Node._count
            cls._table[key] = n
        return n

    # ---- helpers
    @property
    def is_const(self):
        return self.op == "const"

    @property
    def is_inf(self):
        return self.op in ("inf", "ninf")

    def __repr__(self):
        return f"<{self.op} {self.args}>"

    # ---- arithmetic
    def __add__(self, o):
        if isinstance(o, _np.ndarray):
            return NotImplemented
        return add(self, lift(o))

    def __radd__(self, o):
        if isinstance(o, _np.ndarray):
            return NotImplemented
        return add(lift(o), self)

    def __sub__(self, o):
        if isinstance(o, _np.ndarray):
            return NotImplemented
        return sub(self, lift(o))

    def __rsub__(self, o):
        if isinstance(o, _np.ndarray):
            return NotImplemented
        return sub(lift(o), self)

    def __mul__(self, o):
        if isinstance(o, _np.ndarray):
            return NotImplemented
        return mul(self, lift(o))

    def __rmul__(self, o):
        if isinstance(o, _np.ndarray):
            return NotImplemented
        return mul(lift(o), self)

    def __truediv__(self, o):
        if isinstance(o, _np.ndarray):
            return NotImplemented
        return div(self, lift(o))

    def __rtruediv__(self, o):
        if isinstance(o, _np.ndarray):
            return NotImplemented
        return div(lift(o), self)

    def __neg__(self):
        return neg(self)

    def __pos__(self):
        return self

    def __abs__(self):
        return unary("abs", self)

    def __pow__(self, o):
        return power(self, o)

    def __rpow__(self, o):
        return power(lift(o), self)

    # numpy ufuncs on object arrays look these methods up
    def sqrt(self):
        return unary("sqrt", self)

    def exp(self):
        return unary("exp", self)

    def cos(self):
        return unary("cos", self)

    def sin(self):
        return unary("sin", self)

    def arccos(self):
        return unary("acos", self)

    def arctan(self):
        return unary("atan", self)

    def tan(self):
        return div(unary("sin", self), unary("cos", self))

    def arctan2(self, o):
        return Node("atan2", self, lift(o))

    def conjugate(self):
        return self

    # ---- comparisons -> boolean nodes
    def __lt__(self, o):
        return Cond("lt", self, lift(o))

    def __gt__(self, o):
        return Cond("lt", lift(o), self)

    def __le__(self, o):
        return Cond("le", self, lift(o))

    def __ge__(self, o):
        return Cond("le", lift(o), self)

    def __eq__(self, o):
        if isinstance(o, (Node, int, float, Fraction, _np.floating, _np.integer)):
            return Cond("eq", self, lift(o))
        return NotImplemented

    def __ne__(self, o):
        if isinstance(o, (Node, int, float, Fraction, _np.floating, _np.integer)):
            return Cond("eq", self, lift(o)).negate()
        return NotImplemented

    def __hash__(self):
        return hash(self.key)

    def __bool__(self):
        # truthiness of a number: x != 0
        return bool(Cond("eq", self, CONST(0)).negate())

    def __float__(self):
        if self.is_const:
            return float(self.args[0])
        raise TranslatorUnsupported("float() of a symbolic scalar")


def CONST(v):
    if isinstance(v, bool):
        v = int(v)
    if isinstance(v, (float, _np.floating)):
        v = float(v)
        if math.isinf(v):
            return Node("inf") if v > 0 else Node("ninf")
        if math.isnan(v):
            raise NonFiniteValue("nan literal")
    return Node("const", Fraction(v))


def lift(x):
    if isinstance(x, Node):
        return x
    if isinstance(x, SymInt):
        raise TranslatorUnsupported("arithmetic on a symbolic enum ordinal")
    if isinstance(x, (int, float, Fraction, _np.floating, _np.integer, bool)):
        return CONST(x if not isinstance(x, _np.generic) else x.item())
    raise TranslatorUnsupported(f"cannot lift {type(x)} into a symbolic scalar")


def cval(n):
    return n.args[0]


def add(a, b):
    if a.is_inf or b.is_inf:
        if a.is_inf and b.is_inf and a.op != b.op:
            raise NonFiniteValue("inf - inf")
        return a if a.is_inf else b
    if a.is_const and b.is_const:
        return CONST(cval(a) + cval(b))
    if a.is_const and cval(a) == 0:
        return b
    if b.is_const and cval(b) == 0:
        return a
    return Node("add", a, b)


def neg(a):
    if a.is_inf:
        return Node("ninf" if a.op == "inf" else "inf")
    if a.is_const:
        return CONST(-cval(a))
    return Node("neg", a)


def sub(a, b):
    if a.is_inf or b.is_inf:
        return add(a, neg(b))
    if a.is_const and b.is_const:
        return CONST(cval(a) - cval(b))
    if b.is_const and cval(b) == 0:
        return a
    if a.is_const and cval(a) == 0:
        return neg(b)
    return Node("sub", a, b)


def mul(a, b):
    if a.is_inf or b.is_inf:
        other = b if a.is_inf else a
        if other.is_const and cval(other) != 0:
            pos = (cval(other) > 0) == ((a if a.is_inf else b).op == "inf")
            return Node("inf" if pos else "ninf")
        raise NonFiniteValue("inf * x")
    if a.is_const and b.is_const:
        return CONST(cval(a) * cval(b))
    for x, y in ((a, b), (b, a)):
        if x.is_const and cval(x) == 0:
            return CONST(0)
        if x.is_const and cval(x) == 1:
            return y
    return Node("mul", a, b)


def div(a, b):
    if b.is_inf:
        if a.is_inf:
            raise NonFiniteValue("inf / inf")
        return CONST(0)  # x / inf = 0 for finite x
    if b.is_const:
        if cval(b) == 0:
            raise ZeroDivisionError("division by the literal 0")
        if a.is_inf:
            return mul(a, CONST(1 if cval(b) > 0 else -1))
        if a.is_const:
            return CONST(cval(a) / cval(b))
        if cval(b) == 1:
            return a
        return Node("div", a, b)
    # non constant denominator: Python scalar division raises on 0
    if TRACER.cur is not None and bool(Cond("eq", b, CONST(0))):
        raise ZeroDivisionError("division by zero")
    if a.is_inf:
        raise NonFiniteValue("inf / x")
    if a.is_const and cval(a) == 0:
        return CONST(0)
    return Node("div", a, b)


def unary(op, a):
    if a.is_inf:
        if op == "abs":
            return Node("inf")
        raise NonFiniteValue(f"{op}(inf)")
    if op == "abs" and a.is_const:
        return CONST(abs(cval(a)))
    if op in ("sqrt",) and a.is_const and cval(a) in (0, 1):
        return a
    if op == "exp" and a.is_const and cval(a) == 0:
        return CONST(1)
    if op in ("sin",) and a.is_const and cval(a) == 0:
        return CONST(0)
    if op in ("cos",) and a.is_const and cval(a) == 0:
        return CONST(1)
    return Node(op, a)


def power(a, b):
    if isinstance(b, (int, _np.integer)) and not isinstance(b, bool) and 0 <= int(b) <= 8:
        r = CONST(1)
        for _ in range(int(b)):
            r = mul(r, a)
        return r
    b = lift(b)
    if b.is_const and cval(b).denominator == 1 and 0 <= cval(b) <= 8:
        return power(a, int(cval(b)))
    if a.is_inf or b.is_inf:
        raise NonFiniteValue("pow with inf")
    if a.is_const and b.is_const and cval(a) >= 0:
        # keep symbolic (irrational in general)
        pass
    return Node("pow", a, b)


# --------------------------------------------------------------------------
# boolean conditions (forking)
# --------------------------------------------------------------------------
class Cond:
    __slots__ = ("op", "a", "b", "neg")

    def __init__(self, op, a, b, neg=False):
        self.op, self.a, self.b, self.neg = op, a, b, neg

    def negate(self):
        return Cond(self.op, self.a, self.b, not self.neg)

    @property
    def key(self):
        if self.op == "all":
            return ("all",) + tuple((c.key, c.neg) for c in self.a)
        return (self.op, _ckey(self.a), _ckey(self.b))

    def static_value(self):
        a, b = self.a, self.b
        if self.op == "all":
            return None
        if isinstance(a, Node) and isinstance(b, Node):
            fa = _fin(a)
            fb = _fin(b)
            if fa is not None and fb is not None:
                v = {"lt": fa < fb, "le": fa <= fb, "eq": fa == fb}[self.op]
                return v != self.neg
            if a is b:
                v = {"lt": False, "le": True, "eq": True}[self.op]
                return v != self.neg
        return None

    def __bool__(self):
        sv = self.static_value()
        if sv is not None:
            return sv
        v = TRACER.decide(self)
        return v != self.neg

    # `~cond`, `cond & cond` are not used by the kernels
    def __invert__(self):
        return self.negate()


def _ckey(x):
    return x.id if isinstance(x, Node) else ("i", x)


def _fin(n):
    if n.op == "const":
        return cval(n)
    if n.op == "inf":
        return math.inf
    if n.op == "ninf":
        return -math.inf
    return None


class SymInt:
    """A symbolic enum ordinal (regime / phase / fabric): only == against constants."""

    def __init__(self, name):
        self.name = name

    def __eq__(self, o):
        if isinstance(o, (int, _np.integer)):
            return bool(Cond("ieq", self.name, int(o)))
        return NotImplemented

    def __ne__(self, o):
        if isinstance(o, (int, _np.integer)):
            return not bool(Cond("ieq", self.name, int(o)))
        return NotImplemented

    def __hash__(self):
        return hash(self.name)

    def __str__(self):
        return f"<{self.name}>"

    __repr__ = __str__

    def __format__(self, spec):
        return str(self)


class Perm:
    """Result of argsort of four symbolic values; only passed on to callees."""

    def __init__(self, node=None, concrete=None):
        self.node, self.concrete = node, concrete

    def __iter__(self):
        if self.concrete is None:
            raise TranslatorUnsupported("iteration over a symbolic permutation")
        return iter(self.concrete)

    def __getitem__(self, k):
        if self.concrete is None:
            raise TranslatorUnsupported("indexing a symbolic permutation")
        r = self.concrete[k]
        return r

    def __len__(self):
        return 4


class Uninit:
    """content of np.empty: any use is a translator error"""

    def __repr__(self):
        return "<uninit>"


# --------------------------------------------------------------------------
# proxy numpy
# --------------------------------------------------------------------------
class SArr(_np.ndarray):
    """object ndarray whose comparisons give arrays of (unevaluated) conditions"""

    def _cmp(self, o, op, swap, neg):
        out = _np.empty(self.shape, dtype=object)
        if isinstance(o, _np.ndarray):
            if o.shape != self.shape:
                raise TranslatorUnsupported("comparison of arrays of different shape")
            oo = [lift(x) for x in _np.asarray(o, dtype=object).reshape(-1)]
        else:
            oo = [lift(o)] * self.size
        flat = out.reshape(-1)
        for i, x in enumerate(_np.asarray(self, dtype=object).reshape(-1)):
            a, b = (oo[i], lift(x)) if swap else (lift(x), oo[i])
            flat[i] = Cond(op, a, b, neg)
        return _np.asarray(out, dtype=object)

    def __eq__(self, o):
        return self._cmp(o, "eq", False, False)

    def __ne__(self, o):
        return self._cmp(o, "eq", False, True)

    def __lt__(self, o):
        return self._cmp(o, "lt", False, False)

    def __gt__(self, o):
        return self._cmp(o, "lt", True, False)

    def __le__(self, o):
        return self._cmp(o, "le", False, False)

    def __ge__(self, o):
        return self._cmp(o, "le", True, False)

    __hash__ = None

    # (added by group `tensors`, additive) ndarray.sum() on a *subclass* returns a 0-d
    # subclass array instead of the scalar; reduce on the base-class view so that
    # `a[:3, i].sum()` is the symbolic scalar  a0 + a1 + a2  (left to right, as np.sum)
    def sum(self, axis=None, **kw):
        if kw:
            raise TranslatorUnsupported("ndarray.sum with keyword arguments")
        r = _np.ndarray.sum(_np.asarray(self), axis=axis)
        if isinstance(r, _np.ndarray):
            return r.view(SArr)
        return lift(r)

    # (added by group `tensors`, additive) `a.astype(np.float64)` of a symbolic array is a copy of
    # the same symbolic values (the model has one numeric type); any other conversion fails closed
    def astype(self, dtype, *a, **kw):
        if a or kw or dtype not in (float, _np.float64):
            raise TranslatorUnsupported("astype other than astype(float64)")
        return self.copy()


def _obj(a):
    out = _np.empty(_np.shape(a), dtype=object).view(SArr)
    flat = _np.asarray(a, dtype=object).reshape(-1) if _np.size(a) else []
    o = out.reshape(-1)
    for i, x in enumerate(flat):
        o[i] = x if isinstance(x, (Node, Uninit)) else lift(x)
    return out


def _elementwise(method):
    def f(x, *rest):
        if isinstance(x, _np.ndarray):
            out = _np.empty(x.shape, dtype=object).view(SArr)
            o, xi = out.reshape(-1), x.reshape(-1)
            for i in range(xi.size):
                o[i] = getattr(lift(xi[i]), method)(*rest)
            return out
        return getattr(lift(x), method)(*rest)

    return f


class ProxyNumpy:
    inf = float("inf")
    nan = float("nan")
    float64 = float
    ndarray = _np.ndarray

    def __init__(self):
        self.pi = Node("pi")
        self.linalg = ProxyLinalg()

    def __getattr__(self, name):
        raise TranslatorUnsupported(f"numpy.{name} is not supported by the translator")

    @staticmethod
    def _shape(shape):
        return (shape,) if isinstance(shape, (int, _np.integer)) else tuple(shape)

    def zeros(self, shape, dtype=None):
        a = _np.empty(self._shape(shape), dtype=object).view(SArr)
        a.reshape(-1)[:] = [CONST(0)] * a.size
        return a

    def ones(self, shape, dtype=None):
        a = _np.empty(self._shape(shape), dtype=object).view(SArr)
        a.reshape(-1)[:] = [CONST(1)] * a.size
        return a

    def empty(self, shape, dtype=None):
        a = _np.empty(self._shape(shape), dtype=object).view(SArr)
        flat = a.reshape(-1)
        for i in range(a.size):
            flat[i] = Uninit()
        return a

    def array(self, x, dtype=None):
        return _obj(x)

    asarray = array

    def eye(self, n):
        return _obj(_np.eye(n))

    def abs(self, x):
        return _elementwise("__abs__")(x)

    def sqrt(self, x):
        return _elementwise("sqrt")(x)

    def exp(self, x):
        return _elementwise("exp")(x)

    def cos(self, x):
        return _elementwise("cos")(x)

    def sin(self, x):
        return _elementwise("sin")(x)

    def tan(self, x):
        return _elementwise("tan")(x)

    def arccos(self, x):
        return _elementwise("arccos")(x)

    def arctan(self, x):
        return _elementwise("arctan")(x)

    def arctan2(self, y, x):
        if isinstance(y, _np.ndarray) or isinstance(x, _np.ndarray):
            raise TranslatorUnsupported("array arctan2")
        return lift(y).arctan2(lift(x))

    def sign(self, x):
        raise TranslatorUnsupported("numpy.sign")

    def all(self, x):
        conds = []
        for e in _np.asarray(x, dtype=object).reshape(-1):
            if isinstance(e, Cond):
                sv = e.static_value()
                if sv is None:
                    conds.append(e)
                elif not sv:
                    return False
            elif isinstance(e, (bool, _np.bool_)):
                if not e:
                    return False
            else:
                raise TranslatorUnsupported("np.all of non-boolean entries")
        if not conds:
            return True
        if len(conds) == 1:
            return bool(conds[0])
        return bool(Cond("all", tuple(conds), None))

    def any(self, x):
        raise TranslatorUnsupported("np.any")

    def sum(self, x, axis=None):
        if axis is not None:
            raise TranslatorUnsupported("sum with axis")
        r = CONST(0)
        for e in _np.asarray(x, dtype=object).reshape(-1):
            r = r + e
        return r

    def trace(self, x):
        return x[0, 0] + x[1, 1] + x[2, 2]

    def dot(self, a, b):
        a, b = _np.asarray(a, dtype=object), _np.asarray(b, dtype=object)
        if a.ndim != 1 or b.ndim != 1:
            raise TranslatorUnsupported("dot of non-vectors")
        r = CONST(0)
        for x, y in zip(a, b):
            r = r + x * y
        return r

    def cross(self, a, b):
        a, b = _obj(a), _obj(b)
        return _obj(
            [
                a[1] * b[2] - a[2] * b[1],
                a[2] * b[0] - a[0] * b[2],
                a[0] * b[1] - a[1] * b[0],
            ]
        )

    def argsort(self, x):
        x = _obj(x).reshape(-1)
        vals = [_fin(e) for e in x]
        if all(v is not None for v in vals):
            order = sorted(range(len(vals)), key=lambda i: vals[i])  # stable
            return Perm(concrete=[int(i) for i in order])
        if len(x) != 4:
            raise TranslatorUnsupported("argsort of a symbolic array of length != 4")
        return Perm(node=tuple(x))

    def triu(self, x):
        x = _obj(x)
        out = x.copy()
        for i in range(x.shape[0]):
            for j in range(x.shape[1]):
                if j < i:
                    out[i, j] = CONST(0)
        return out

    def where(self, c, a, b):
        c, a, b = _obj(c), _obj(a), _obj(b)
        out = _np.empty(c.shape, dtype=object)
        for idx in _np.ndindex(c.shape):
            ce = c[idx]
            # truthiness of a number: nonzero
            cond = Cond("eq", ce, CONST(0)).negate()
            sv = cond.static_value()
            if sv is not None:
                out[idx] = a[idx] if sv else b[idx]
            else:
                out[idx] = Node("ite_nz", ce, a[idx], b[idx])
        return out

    def diag(self, v):
        v = _obj(v)
        if v.ndim != 1:
            raise TranslatorUnsupported("diag of a matrix")
        out = self.zeros((len(v), len(v)))
        for i in range(len(v)):
            out[i, i] = v[i]
        return out

    def repeat(self, a, n):
        return _np.repeat(_obj(a), n)

    def hstack(self, xs):
        return _np.hstack([_obj(x) for x in xs])

    def transpose(self, a):
        return _obj(a).transpose()

    def rad2deg(self, x):
        return lift(x) * 180 / self.pi

    def deg2rad(self, x):
        return lift(x) * self.pi / 180


class ProxyLinalg:
    def __getattr__(self, name):
        raise TranslatorUnsupported(f"numpy.linalg.{name} is not supported by the translator")

    def det(self, m):
        m = _obj(m)
        if m.shape != (3, 3):
            raise TranslatorUnsupported("det of non 3x3")
        return (
            m[0, 0] * (m[1, 1] * m[2, 2] - m[1, 2] * m[2, 1])
            - m[0, 1] * (m[1, 0] * m[2, 2] - m[1, 2] * m[2, 0])
            + m[0, 2] * (m[1, 0] * m[2, 1] - m[1, 1] * m[2, 0])
        )


# --------------------------------------------------------------------------
# tracing
# --------------------------------------------------------------------------
class CallNode:
    _n = 0

    def __init__(self, fname, cname, args, sig):
        CallNode._n += 1
        self.id = CallNode._n
        self.fname, self.cname, self.args, self.sig = fname, cname, args, sig

    @property
    def key(self):
        def k(a):
            kind, v = a[0], a[1]
            if kind == "arr":
                return ("arr",) + tuple(e.id for e in v)
            if kind == "scalar":
                return ("s", v.id)
            if kind == "enum":
                return ("e", v if isinstance(v, int) else v.name)
            if kind == "perm":
                return ("p", tuple(e.id for e in v.node) if v.node else tuple(v.concrete))
            return (kind, v)

        return (self.cname,) + tuple(k(a) for a in self.args)


class PathEnd(Exception):
    pass


class Tracer:
    def __init__(self):
        self.cur = None  # current path state

    # ---- decisions
    def decide(self, cond: Cond) -> bool:
        st = self.cur
        if st is None:
            raise TranslatorUnsupported("branch on a symbolic value outside a trace")
        k = cond.key
        if k in st["memo"]:
            return st["memo"][k]
        i = st["ndec"]
        if i < len(st["script"]):
            v = st["script"][i]
        else:
            v = True
            st["script"].append(True)
        st["ndec"] += 1
        st["memo"][k] = v
        st["events"].append(("dec", Cond(cond.op, cond.a, cond.b), v))  # un-negated form
        return v

    def call_event(self, call: CallNode):
        st = self.cur
        k = call.key
        if k in st["calls"]:
            return st["calls"][k]
        st["calls"][k] = call
        st["events"].append(("call", call))
        return call


TRACER = Tracer()


class Spec:
    """How to trace one Python function.

    params: list of (name, kind, info)
       kind: 'arr' (info = shape), 'scalar', 'enum', 'perm4',
             'static' (info = None; value supplied by the caller / by `statics`),
             'const' (info = python value passed as is)
    """

    def __init__(self, module, pyname, params, inline=(), cname=None):
        self.module, self.pyname, self.params = module, pyname, params
        self.inline = set(inline)
        self.cname = cname or ("k_" + pyname.lstrip("_"))


def _static_tag(v):
    if isinstance(v, _np.ndarray):
        parts = []
        for e in v.reshape(-1):
            f = _fin(e) if isinstance(e, Node) else e
            if f is None:
                raise TranslatorUnsupported("static array argument with symbolic entries")
            if f == math.inf:
                parts.append("inf")
            elif f == -math.inf:
                parts.append("ninf")
            else:
                fr = Fraction(f)
                parts.append(
                    str(fr.numerator).replace("-", "m")
                    + ("" if fr.denominator == 1 else f"d{fr.denominator}")
                )
        return "_".join(parts)
    if isinstance(v, (int, _np.integer)):
        return str(int(v)).replace("-", "m")
    if isinstance(v, bool):
        return "T" if v else "F"
    raise TranslatorUnsupported(f"static argument of type {type(v)}")


class Translation:
    """Holds the specs of one module and the traced definitions."""

    def __init__(self, module, specs):
        self.module = module
        self.specs = {s.pyname: s for s in specs}
        self.defs = {}  # cname -> traced definition
        self.order = []
        self.proxy = ProxyNumpy()
        self.orig = {s.pyname: module.__dict__[s.pyname] for s in specs}

    # ---- public
    def trace_all(self, roots):
        for pyname, statics in roots:
            self.ensure(pyname, statics)

    # ---- build a specialisation
    def ensure(self, pyname, statics):
        spec = self.specs[pyname]
        tag = "_".join(_static_tag(statics[n]) for n, k, _ in spec.params if k == "static")
        cname = spec.cname + ("_s_" + tag if tag else "")
        if cname in self.defs:
            return self.defs[cname]
        d = {"cname": cname, "spec": spec, "statics": statics, "pending": True}
        self.defs[cname] = d
        self._trace(d)
        d["pending"] = False
        self.order.append(cname)
        return d

    def _make_args(self, spec, statics, perm):
        args = []
        for name, kind, info in spec.params:
            if kind == "arr":
                shape = info
                n = int(_np.prod(shape))
                a = _np.empty(n, dtype=object).view(SArr)
                for i in range(n):
                    a[i] = Node("elt", name, i)
                args.append(a.reshape(shape))
            elif kind == "scalar":
                args.append(Node("var", name))
            elif kind == "enum":
                args.append(SymInt(name))
            elif kind == "perm4":
                args.append(Perm(concrete=list(perm)))
            elif kind == "static":
                v = statics[name]
                args.append(v.copy() if isinstance(v, _np.ndarray) else v)
            elif kind == "const":
                args.append(info)
            else:
                raise TranslatorUnsupported(kind)
        return args

    def _trace(self, d):
        spec = d["spec"]
        has_perm = any(k == "perm4" for _, k, _ in spec.params)
        perms = list(itertools.permutations(range(4))) if has_perm else [None]
        trees = {}
        for perm in perms:
            trees[perm] = self._trace_paths(d, perm)
        d["trees"] = trees
        # signature: find first Return leaf
        ret = None
        fallible = False
        for t in trees.values():
            for leaf in _leaves(t):
                if leaf[0] == "ret":
                    r = _ret_shape(leaf[1])
                    if ret is None:
                        ret = r
                    elif ret != r:
                        raise TranslatorUnsupported(
                            f"{spec.pyname}: return shape differs between paths: {ret} vs {r}"
                        )
                else:
                    fallible = True
            for c in _calls(t):
                if c.sig["fallible"]:
                    fallible = True
        if ret is None:
            raise TranslatorUnsupported(f"{spec.pyname}: no path returns")
        d["ret"], d["fallible"] = ret, fallible

    def _trace_paths(self, d, perm):
        spec = d["spec"]
        mod = self.module
        self.orig.setdefault(spec.pyname, mod.__dict__[spec.pyname])
        fn = self.orig[spec.pyname]
        fn = getattr(fn, "py_func", fn)
        paths = []
        stack = [[]]
        while stack:
            script = stack.pop()
            forced = len(script)
            st = {"script": list(script), "ndec": 0, "memo": {}, "events": [], "calls": {}}
            saved = {}
            outer = TRACER.cur
            try:
                # rebind np and sibling kernels
                saved["np"] = mod.__dict__.get("np")
                mod.__dict__["np"] = self.proxy
                for other, ospec in self.specs.items():
                    if other == spec.pyname:
                        continue
                    saved[other] = mod.__dict__[other]
                    if other in spec.inline:
                        f2 = self.orig[other]
                        mod.__dict__[other] = getattr(f2, "py_func", f2)
                    else:
                        mod.__dict__[other] = self._stub(ospec)
                TRACER.cur = st
                args = self._make_args(spec, d["statics"], perm)
                originals = [a.copy() if isinstance(a, _np.ndarray) else None for a in args]
                try:
                    out = fn(*args)
                    # a kernel that writes into its array arguments is not a pure function of
                    # them: calls of it could not be kept as calls in the model -> fail closed
                    for (pname, pkind, _), a, a0 in zip(spec.params, args, originals):
                        if a0 is not None and pkind in ("arr", "static"):
                            fa, f0 = a.reshape(-1), a0.reshape(-1)
                            if len(fa) != len(f0) or any(x is not y for x, y in zip(fa, f0)):
                                raise TranslatorUnsupported(
                                    f"{spec.pyname} mutates its array argument `{pname}` in place")
                    leaf = ("ret", _norm_ret(out))
                except TranslatorUnsupported:
                    raise
                except ZeroDivisionError:
                    leaf = ("err", "DivZero")
                except NonFiniteValue:
                    leaf = ("err", "NonFinite")
                except ValueError:
                    leaf = ("err", "ValueError")
                except AssertionError:
                    leaf = ("err", "AssertionError")
                except IndexError:
                    leaf = ("err", "IndexError")
            finally:
                TRACER.cur = outer
                for k, v in saved.items():
                    mod.__dict__[k] = v
            paths.append((st["events"], leaf))
            decs = st["script"]
            for i in range(forced, len(decs)):
                stack.append(decs[:i] + [False])
            if len(paths) > 4000:
                raise TranslatorUnsupported(f"{spec.pyname}: more than 4000 paths")
        return _build_tree(paths)

    def _stub(self, ospec):
        tr = self

        def stub(*actual, **kw):
            if kw:
                names = [n for n, _, _ in ospec.params]
                actual = list(actual) + [kw[n] for n in names[len(actual):]]
            if len(actual) != len(ospec.params):
                raise TranslatorUnsupported(f"call of {ospec.pyname} with {len(actual)} args")
            statics = {}
            cargs = []
            for (name, kind, info), v in zip(ospec.params, actual):
                if kind == "static":
                    statics[name] = _obj(v) if isinstance(v, (_np.ndarray, list, tuple)) else v
                elif kind == "arr":
                    a = _obj(v)
                    if a.shape != tuple(info):
                        raise TranslatorUnsupported(
                            f"{ospec.pyname}: argument {name} has shape {a.shape}, spec says {info}"
                        )
                    flat = list(a.reshape(-1))
                    if any(isinstance(e, Uninit) for e in flat):
                        raise TranslatorUnsupported("uninitialised array passed to a kernel")
                    if any(e.is_inf for e in flat):
                        raise TranslatorUnsupported(
                            f"{ospec.pyname}: non-static array argument {name} contains inf"
                        )
                    cargs.append(("arr", flat, tuple(a.shape)))
                elif kind == "scalar":
                    e = lift(v)
                    if e.is_inf:
                        raise NonFiniteValue("inf passed as scalar argument")
                    cargs.append(("scalar", e))
                elif kind == "enum":
                    cargs.append(("enum", v if isinstance(v, SymInt) else int(v)))
                elif kind == "perm4":
                    if isinstance(v, Perm):
                        cargs.append(("perm", v))
                    else:
                        cargs.append(("perm", Perm(concrete=[int(i) for i in v])))
                elif kind == "const":
                    if v != info:
                        raise TranslatorUnsupported(f"{ospec.pyname}: const argument {name} = {v}")
                else:
                    raise TranslatorUnsupported(kind)
            d = tr.ensure(ospec.pyname, statics)
            if d.get("pending"):
                raise TranslatorUnsupported(f"recursive kernel {ospec.pyname}")
            sig = {"ret": d["ret"], "fallible": d["fallible"]}
            call = TRACER.call_event(CallNode(ospec.pyname, d["cname"], cargs, sig))
            return _mk_callouts(call, d["ret"])

        return stub


CALLOUT_SHAPES: dict = {}


def _mk_callouts(call, ret):
    def mk(r, path):
        if r[0] == "scalar":
            return Node("callout", call.id, path, -1)
        if r[0] == "arr":
            shape = r[1]
            n = int(_np.prod(shape))
            CALLOUT_SHAPES[(call.id, path)] = tuple(shape)
            a = _np.empty(n, dtype=object).view(SArr)
            for i in range(n):
                a[i] = Node("callout", call.id, path, i)
            return a.reshape(shape)
        if r[0] == "tuple":
            return tuple(mk(x, path + (i,)) for i, x in enumerate(r[1]))
        raise TranslatorUnsupported(r[0])

    return mk(ret, ())


def _norm_ret(out):
    if isinstance(out, tuple):
        return ("tuple", tuple(_norm_ret(x) for x in out))
    if isinstance(out, _np.ndarray):
        a = _obj(out)
        flat = list(a.reshape(-1))
        for e in flat:
            if isinstance(e, Uninit):
                raise TranslatorUnsupported("uninitialised entry returned")
            if e.is_inf:
                raise NonFiniteValue("inf returned")
        return ("arr", a.shape, flat)
    if isinstance(out, list):
        flat = []
        for x in out:
            if isinstance(x, _np.ndarray):
                flat.extend(lift(e) for e in x.reshape(-1))
            else:
                flat.append(lift(x))
        return ("arr", (len(flat),), flat)
    if isinstance(out, (Node, int, float, _np.floating, _np.integer)):
        e = lift(out)
        if e.is_inf:
            raise NonFiniteValue("inf returned")
        return ("scalar", e)
    raise TranslatorUnsupported(f"return value of type {type(out)}")


def _ret_shape(r):
    if r[0] == "tuple":
        return ("tuple", tuple(_ret_shape(x) for x in r[1]))
    if r[0] == "arr":
        return ("arr", tuple(r[1]))
    return ("scalar",)


def _build_tree(paths):
    """paths: list of (events, leaf) -> nested tree
    tree := ('leaf', leaf) | ('dec', cond, t_true, t_false) | ('call', call, t)"""

    def build(ps, depth):
        evs0, leaf0 = ps[0]
        if all(len(evs) == depth for evs, _ in ps):
            if len(ps) != 1:
                # identical event lists must give identical leaves (determinism)
                pass
            return ("leaf", leaf0)
        ev = evs0[depth]
        if ev[0] == "call":
            for evs, _ in ps:
                if evs[depth][0] != "call" or evs[depth][1].key != ev[1].key:
                    raise TranslatorUnsupported("non-deterministic trace (call mismatch)")
            # unify call ids: later paths created new CallNode objects; keep the first
            return ("call", ev[1], build(_unify_calls(ps, depth, ev[1]), depth + 1))
        cond = ev[1]
        t = [p for p in ps if p[0][depth][2]]
        f = [p for p in ps if not p[0][depth][2]]
        for evs, _ in ps:
            if evs[depth][0] != "dec" or evs[depth][1].key != cond.key:
                raise TranslatorUnsupported("non-deterministic trace (decision mismatch)")
        return (
            "dec",
            cond,
            build(t, depth + 1) if t else None,
            build(f, depth + 1) if f else None,
        )

    return build(paths, 0)


# Since callout nodes carry the CallNode id and every path re-executes the function,
# the same logical call gets a fresh id on every path.  Ids are made canonical by
# numbering calls by their structural key (see CallNode creation in call_event):
# we therefore intern CallNodes by key globally.
_CALL_INTERN: dict = {}


def _unify_calls(ps, depth, call):
    return ps


_orig_call_event = Tracer.call_event


def _interned_call_event(self, call):
    st = self.cur
    k = call.key
    if k in st["calls"]:
        return st["calls"][k]
    c = _CALL_INTERN.get(k)
    if c is None:
        _CALL_INTERN[k] = call
        c = call
    else:
        CallNode._n -= 1
    st["calls"][k] = c
    st["events"].append(("call", c))
    return c


Tracer.call_event = _interned_call_event


def _leaves(t):
    if t is None:
        return
    if t[0] == "leaf":
        yield t[1]
    elif t[0] == "dec":
        yield from _leaves(t[2])
        yield from _leaves(t[3])
    else:
        yield from _leaves(t[2])


def _calls(t):
    if t is None:
        return
    if t[0] == "call":
        yield t[1]
        yield from _calls(t[2])
    elif t[0] == "dec":
        yield from _calls(t[2])
        yield from _calls(t[3])
