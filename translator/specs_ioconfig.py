"""Python-`ast` translator of the decision logic of pydrex.io's configuration parser (group `config`, C19), tie T.

Runs from gen.py on every build.  `translations()` returns [] (nothing goes through the symbolic
tracer); as a side effect it reads the functions listed in FUNCTIONS from the CURRENT source of
pydrex.io with `ast` and writes them, statement by statement, as Gallina definitions over the
primitives of coq/Model_pyconfig.v into coq/gen/Gen_io_config.v.  coq/Inst_config.v proves
`generated = hand-written model` (Model_config), so an edit of these source lines breaks a proof
obligation -- or this translator, which FAILS CLOSED on every construct outside the subset below
(exception -> a stub that cannot compile -> every dependent obligation is reported as broken).

Subset.  Statements: assignment to a local name, `d[k] = v` on a local name (the name is rebound to the
updated dictionary), `if/elif/else`, `for x in e` / `for a, b in e.items()` whose body assigns at
most one local name and does not return, `try/except (E, ...)` with one handler that ends in `raise`,
`return`, `raise E(...) [from None]`, logging calls, docstrings.  Expressions: constants, local names,
builtins used as values (opaque), `a[k]`, `a.get(k[, d])`, `len`, `tuple`, `list`, `type`, `isinstance`
(classes float / int / str / MineralPhase / MineralFabric, `A | B`, tuples), `in`, `not in`, `==`, `!=`, `<=`,
`not`, `and`, `or`, `+`, `-`, `np.sum`, `np.abs`, `np.nan`, `np.inf`, `MineralPhase[x]`, `MineralPhase(x)`,
`getattr(MineralFabric, x)`, `DefaultParams().as_dict()`, `DefaultParams().<field>`, f-strings (parts are
evaluated, the text is opaque), list comprehensions / generator expressions with one `for`, calls of
other translated functions.
"""
from __future__ import annotations

import ast
import builtins
import hashlib
import inspect
import os
import sys
import textwrap

REPO = os.environ.get("PYDREX_REPO", "/repo")

# function -> options.  `returns_var`: the function edits this parameter in place and returns None;
# the generated function returns the final value of the parameter instead.
FUNCTIONS = [
    ("_parse_phase", {}),
    ("_parse_config_params", {}),
    ("_parse_config_input_common", {}),
    ("_parse_output_options", {"returns_var": "output_opts"}),
]

EXC = {"ConfigError": "ConfigError", "TypeError": "TypeErr", "ValueError": "ValueErr", "KeyError": "KeyErr",
       "AttributeError": "AttributeErr"}
ENUMS = ("MineralPhase", "MineralFabric")
KCLS = {"float": "KFloat", "int": "KInt", "str": "KStr", "MineralPhase": "KMineralPhase", "MineralFabric": "KMineralFabric"}
LOGGERS = ("_log",)


class Unsupported(Exception):
    def __init__(self, node, why):
        super().__init__(f"line {getattr(node, 'lineno', '?')}: {why}: {ast.dump(node)[:160] if isinstance(node, ast.AST) else node}")


def coq_string(s):
    if not all(32 <= ord(c) < 127 for c in s):
        raise Unsupported(s, "non-ASCII string constant")
    return '"' + s.replace('"', '""') + '"'


def coq_float(x):
    import math
    if math.isnan(x):
        return "nan"
    if math.isinf(x):
        return "infinity" if x > 0 else "neg_infinity"
    h = float(x).hex()
    return f"({h})%float" if h.startswith("-") else f"{h}%float"


def ident(name):
    out = "".join(c if (c.isascii() and (c.isalnum() or c == "_")) else "u%x" % ord(c) for c in name)
    return "v_" + out


class Fn:
    """translation of one function"""

    def __init__(self, node, opts, known):
        self.node, self.opts, self.known = node, opts, known
        self.locals = {a.arg for a in node.args.args}
        self.fresh = 0

    # ---------------------------------------------------------------- helpers
    def tmp(self, base="t"):
        self.fresh += 1
        return f"{base}{self.fresh}_"

    def dotted(self, e):
        if isinstance(e, ast.Name):
            return e.id
        if isinstance(e, ast.Attribute):
            d = self.dotted(e.value)
            return None if d is None else d + "." + e.attr
        return None

    def enum_of(self, e):
        d = self.dotted(e)
        if d and d.split(".")[-1] in ENUMS and (d.count(".") == 0 or d.split(".")[0] == "_core"):
            return d.split(".")[-1]
        return None

    # ---------------------------------------------------------------- expressions: -> (code, pure)
    # pure: `code` is a `value`; otherwise a `cres value`
    def expr(self, e):
        if isinstance(e, ast.Constant):
            v = e.value
            if isinstance(v, bool):
                return f"(VBool {'true' if v else 'false'})", True
            if isinstance(v, int):
                return f"(VInt ({v})%Z)", True
            if isinstance(v, float):
                return f"(VFloat {coq_float(v)})", True
            if isinstance(v, str):
                return f"(VStr {coq_string(v)})", True
            if v is None:
                return "VNone", True
            raise Unsupported(e, "constant")
        if isinstance(e, ast.Name):
            if e.id in self.locals:
                return ident(e.id), True
            if hasattr(builtins, e.id):
                return f'(VOpaque "builtin" [VStr {coq_string(e.id)}])', True        # e.g. `input[...]`: not subscriptable
            raise Unsupported(e, "name that is neither a local nor a builtin")
        if isinstance(e, ast.Attribute):
            d = self.dotted(e)
            if d == "np.nan":
                return "(VFloat nan)", True
            if d == "np.inf":
                return "(VFloat infinity)", True
            # DefaultParams().<field>
            if isinstance(e.value, ast.Call) and self.dotted(e.value.func) in ("_core.DefaultParams", "DefaultParams") and not e.value.args:
                return f"(getd {coq_string(e.attr)} (pc_instance default_params) VNone)", True
            raise Unsupported(e, "attribute")
        if isinstance(e, ast.Dict):
            if e.keys:
                raise Unsupported(e, "non-empty dict display")
            return "(VTable [])", True
        if isinstance(e, (ast.List, ast.Tuple)):
            con = "VList" if isinstance(e, ast.List) else "VTuple"
            return self.bind_all(e.elts, lambda xs: (f"({con} [{'; '.join(xs)}])", True))
        if isinstance(e, ast.JoinedStr):
            parts = [p.value for p in e.values if isinstance(p, ast.FormattedValue)]
            return self.bind_all(parts, lambda xs: (f"(py_text [{'; '.join(xs)}])", True))
        if isinstance(e, ast.Subscript):
            if isinstance(e.slice, ast.Slice):
                raise Unsupported(e, "slice")
            en = self.enum_of(e.value)
            if en:
                return self.bind_all([e.slice], lambda xs: (f"(py_enum_item {coq_string(en)} {xs[0]})", False))
            return self.bind_all([e.value, e.slice], lambda xs: (f"(py_getitem {xs[0]} {xs[1]})", False))
        if isinstance(e, ast.BinOp):
            if isinstance(e.op, ast.Add):
                return self.bind_all([e.left, e.right], lambda xs: (f"(py_add {xs[0]} {xs[1]})", False))
            if isinstance(e.op, ast.Sub):
                return self.bind_all([e.left, e.right], lambda xs: (f"(py_sub {xs[0]} {xs[1]})", False))
            raise Unsupported(e, "binary operator")
        if isinstance(e, (ast.ListComp, ast.GeneratorExp)):
            return self.comprehension(e, "VList")
        if isinstance(e, ast.Call):
            return self.call(e)
        raise Unsupported(e, "expression")

    def bind_all(self, exprs, k):
        """evaluate exprs left to right, then k(list of value terms) -> (code, pure)"""
        binds, names = [], []
        for x in exprs:
            c, pure = self.expr(x)
            if pure:
                names.append(c)
            else:
                t = self.tmp()
                binds.append((t, c))
                names.append(t)
        code, pure = k(names)
        if not binds:
            return code, pure
        inner = code if not pure else f"(cret {code})"
        for t, c in reversed(binds):
            inner = f"(cbind {c} (fun {t} => {inner}))"
        return inner, False

    def monadic(self, e):
        c, pure = self.expr(e)
        return f"(cret {c})" if pure else c

    def comprehension(self, e, con):
        if len(e.generators) != 1 or e.generators[0].ifs or e.generators[0].is_async or not isinstance(e.generators[0].target, ast.Name):
            raise Unsupported(e, "comprehension")
        g = e.generators[0]
        x = g.target.id
        it = self.iter_code(g.iter)
        saved = set(self.locals)
        self.locals.add(x)
        body = self.monadic(e.elt)
        self.locals = saved
        l, ys = self.tmp("l"), self.tmp("ys")
        return f"(cbind {it} (fun {l} => cbind (mapM (fun {ident(x)} => {body}) {l}) (fun {ys} => cret ({con} {ys}))))", False

    def iter_code(self, e):
        """-> code of type cres (list value)"""
        if isinstance(e, ast.Call) and isinstance(e.func, ast.Attribute) and e.func.attr == "items" and not e.args:
            c = self.monadic(e.func.value)
            t = self.tmp()
            return f"(cbind {c} (fun {t} => py_items {t}))"
        c = self.monadic(e)
        t = self.tmp()
        return f"(cbind {c} (fun {t} => py_iter {t}))"

    def classes(self, e):
        if isinstance(e, ast.BinOp) and isinstance(e.op, ast.BitOr):
            return self.classes(e.left) + self.classes(e.right)
        if isinstance(e, ast.Tuple):
            return [k for x in e.elts for k in self.classes(x)]
        d = self.dotted(e)
        if d and d.split(".")[-1] in KCLS and (d.count(".") == 0 or d.split(".")[0] == "_core"):
            return [KCLS[d.split(".")[-1]]]
        raise Unsupported(e, "class in isinstance")

    def call(self, e):
        if e.keywords:
            raise Unsupported(e, "keyword arguments")
        f = e.func
        d = self.dotted(f)
        if d == "len" and len(e.args) == 1:
            return self.bind_all(e.args, lambda xs: (f"(py_len {xs[0]})", False))
        if d == "tuple" and len(e.args) == 1:
            if isinstance(e.args[0], ast.GeneratorExp):
                return self.comprehension(e.args[0], "VTuple")
            return self.bind_all(e.args, lambda xs: (f"(py_tuple {xs[0]})", False))
        if d == "list" and len(e.args) == 1:
            return self.bind_all(e.args, lambda xs: (f"(py_list {xs[0]})", False))
        if d == "type" and len(e.args) == 1:
            return self.bind_all(e.args, lambda xs: (f"(py_type {xs[0]})", True))
        if d == "np.sum" and len(e.args) == 1:
            return self.bind_all(e.args, lambda xs: (f"(py_np_sum {xs[0]})", False))
        if d == "np.abs" and len(e.args) == 1:
            return self.bind_all(e.args, lambda xs: (f"(py_np_abs {xs[0]})", False))
        if d == "getattr" and len(e.args) == 2 and self.enum_of(e.args[0]):
            en = self.enum_of(e.args[0])
            return self.bind_all([e.args[1]], lambda xs: (f"(py_enum_getattr {coq_string(en)} {xs[0]})", False))
        if self.enum_of(f) and len(e.args) == 1:
            en = self.enum_of(f)
            return self.bind_all(e.args, lambda xs: (f"(py_enum_call {coq_string(en)} {xs[0]})", False))
        if d in self.known:
            return self.bind_all(e.args, lambda xs: (f"(gen_{d} {' '.join(xs)})", False))
        if isinstance(f, ast.Attribute):
            # DefaultParams().as_dict()
            if f.attr == "as_dict" and not e.args and isinstance(f.value, ast.Call) and not f.value.args \
                    and self.dotted(f.value.func) in ("_core.DefaultParams", "DefaultParams"):
                return "(VTable defaults_asdict)", True
            if f.attr == "get" and len(e.args) in (1, 2):
                args = [f.value] + list(e.args)
                return self.bind_all(args, lambda xs: (f"(py_get {xs[0]} {xs[1]} {xs[2] if len(xs) > 2 else 'VNone'})", False))
        raise Unsupported(e, "call")

    # ---------------------------------------------------------------- conditions: -> code of type cres bool
    def cond(self, e):
        if isinstance(e, ast.UnaryOp) and isinstance(e.op, ast.Not):
            b = self.tmp("b")
            return f"(cbind {self.cond(e.operand)} (fun {b} => cret (negb {b})))"
        if isinstance(e, ast.BoolOp):
            parts = [self.cond(v) for v in e.values]
            code = parts[-1]
            for p in reversed(parts[:-1]):
                b = self.tmp("b")
                code = (f"(cbind {p} (fun {b} => if {b} then {code} else cret false))" if isinstance(e.op, ast.And)
                        else f"(cbind {p} (fun {b} => if {b} then cret true else {code}))")
            return code
        if isinstance(e, ast.Compare):
            if len(e.ops) != 1:
                raise Unsupported(e, "chained comparison")
            op = {ast.In: "py_in", ast.NotIn: "py_not_in", ast.Eq: "py_eqb", ast.NotEq: "py_ne", ast.LtE: "py_le"}.get(type(e.ops[0]))
            if op is None:
                raise Unsupported(e, "comparison operator")
            c, _ = self.bind_all([e.left, e.comparators[0]], lambda xs: (f"({op} {xs[0]} {xs[1]})", False))
            return c
        if isinstance(e, ast.Call) and self.dotted(e.func) == "isinstance" and len(e.args) == 2 and not e.keywords:
            ks = self.classes(e.args[1])
            c, pure = self.bind_all([e.args[0]], lambda xs: (f"(py_isinstance {xs[0]} [{'; '.join(ks)}])", True))
            return c if not pure else f"(cret {c})"
        c, pure = self.expr(e)
        t = self.tmp()
        return f"(py_truthy {c})" if pure else f"(cbind {c} (fun {t} => py_truthy {t}))"

    # ---------------------------------------------------------------- statements
    def assigned(self, stmts):
        out = []
        for s in stmts:
            for n in ast.walk(s):
                if isinstance(n, ast.Assign):
                    for t in n.targets:
                        if isinstance(t, ast.Name):
                            out.append(t.id)
                        elif isinstance(t, ast.Subscript) and isinstance(t.value, ast.Name):
                            out.append(t.value.id)
                        else:
                            raise Unsupported(n, "assignment target")
                elif isinstance(n, (ast.AugAssign, ast.AnnAssign, ast.NamedExpr, ast.Delete, ast.With, ast.While, ast.Global, ast.Nonlocal)):
                    raise Unsupported(n, "statement")
        seen, res = set(), []
        for x in out:
            if x not in seen:
                seen.add(x)
                res.append(x)
        return res

    def terminates(self, stmts):
        """every path through stmts ends in return / raise"""
        for s in stmts:
            if isinstance(s, (ast.Return, ast.Raise)):
                return True
            if isinstance(s, ast.If) and s.orelse and self.terminates(s.body) and self.terminates(s.orelse):
                return True
            if isinstance(s, ast.Try) and self.terminates(s.body) and all(self.terminates(h.body) for h in s.handlers):
                return True
        return False

    def block(self, stmts, end, allow_return=True):
        """code (cres _) for: execute stmts, then `end` (code) when falling off the end"""
        if not stmts:
            return end
        s, rest = stmts[0], stmts[1:]
        if isinstance(s, ast.Expr):
            if isinstance(s.value, ast.Constant) and isinstance(s.value.value, str):
                return self.block(rest, end, allow_return)                      # docstring
            if isinstance(s.value, ast.Call) and isinstance(s.value.func, ast.Attribute) and self.dotted(s.value.func.value) in LOGGERS:
                c, _ = self.bind_all(list(s.value.args), lambda xs: (self.block(rest, end, allow_return), False))
                return c
            raise Unsupported(s, "expression statement")
        if isinstance(s, ast.Return):
            if not allow_return:
                raise Unsupported(s, "return inside a loop / inside a try block that is followed by code")
            if s.value is None:
                rv = self.opts.get("returns_var")
                return f"(cret {ident(rv)})" if rv else "(cret VNone)"
            if self.opts.get("returns_var"):
                raise Unsupported(s, "return of a value in a function declared to return its edited parameter")
            return self.monadic(s.value)
        if isinstance(s, ast.Raise):
            if s.exc is None:
                raise Unsupported(s, "bare raise")
            exc = s.exc
            args = []
            if isinstance(exc, ast.Call):
                if exc.keywords:
                    raise Unsupported(s, "keyword arguments of an exception")
                args, exc = list(exc.args), exc.func
            d = self.dotted(exc)
            name = d.split(".")[-1] if d else None
            if name not in EXC:
                raise Unsupported(s, "exception class")
            if s.cause is not None and not (isinstance(s.cause, ast.Constant) and s.cause.value is None):
                raise Unsupported(s, "raise ... from <exception>")
            c, _ = self.bind_all(args, lambda xs: (f"(craise {EXC[name]})", False))
            return c
        if isinstance(s, ast.Assign):
            if len(s.targets) != 1:
                raise Unsupported(s, "multiple assignment targets")
            t = s.targets[0]
            if isinstance(t, ast.Name):
                c = self.monadic(s.value)
                self.locals.add(t.id)
                return f"(cbind {c} (fun {ident(t.id)} => {self.block(rest, end, allow_return)}))"
            if isinstance(t, ast.Subscript) and isinstance(t.value, ast.Name) and t.value.id in self.locals and not isinstance(t.slice, ast.Slice):
                d = t.value.id
                # Python evaluates the right-hand side first, then the subscript of the target
                c, _ = self.bind_all([s.value, t.slice], lambda xs: (f"(py_setitem {ident(d)} {xs[1]} {xs[0]})", False))
                return f"(cbind {c} (fun {ident(d)} => {self.block(rest, end, allow_return)}))"
            raise Unsupported(s, "assignment target")
        if isinstance(s, ast.If):
            b = self.tmp("b")
            saved = set(self.locals)
            then = self.block(list(s.body) + rest, end, allow_return)
            self.locals = set(saved)
            els = self.block(list(s.orelse) + rest, end, allow_return)
            self.locals = saved | set(self.assigned([s]))      # names bound on some path only are not used afterwards in the subset
            return f"(cbind {self.cond(s.test)} (fun {b} => if {b} then {then} else {els}))"
        if isinstance(s, ast.For):
            if s.orelse:
                raise Unsupported(s, "for ... else")
            st = [x for x in self.assigned(s.body) if x in self.locals]
            new = [x for x in self.assigned(s.body) if x not in self.locals]
            if len(st) > 1:
                raise Unsupported(s, "loop that assigns more than one outer name")
            it = self.iter_code(s.iter)
            saved = set(self.locals)
            state = ident(st[0]) if st else "st_"
            init = ident(st[0]) if st else "VNone"
            item = self.tmp("item")
            if isinstance(s.target, ast.Name):
                self.locals.add(s.target.id)
                body = self.block(list(s.body), f"(cret {state})", allow_return=False)
                fn = f"(fun {state} {ident(s.target.id)} => {body})"
            elif isinstance(s.target, ast.Tuple) and len(s.target.elts) == 2 and all(isinstance(x, ast.Name) for x in s.target.elts):
                a, b_ = s.target.elts[0].id, s.target.elts[1].id
                self.locals |= {a, b_}
                body = self.block(list(s.body), f"(cret {state})", allow_return=False)
                fn = f"(fun {state} {item} => py_unpack2 {item} (fun {ident(a)} {ident(b_)} => {body}))"
            else:
                raise Unsupported(s, "loop target")
            self.locals = saved
            l = self.tmp("l")
            out = ident(st[0]) if st else "_"
            return f"(cbind {it} (fun {l} => cbind (cfor {l} {fn} {init}) (fun {out} => {self.block(rest, end, allow_return)})))"
        if isinstance(s, ast.Try):
            if s.orelse or s.finalbody or len(s.handlers) != 1:
                raise Unsupported(s, "try with else / finally / several handlers")
            h = s.handlers[0]
            if h.name is not None or h.type is None:
                raise Unsupported(s, "except ... as name / bare except")
            types = h.type.elts if isinstance(h.type, ast.Tuple) else [h.type]
            caught = []
            for t in types:
                d = self.dotted(t)
                name = d.split(".")[-1] if d else None
                if name not in EXC:
                    raise Unsupported(s, "exception class in except")
                caught.append(EXC[name])
            if not self.terminates(h.body) or any(isinstance(n, ast.Return) for x in h.body for n in ast.walk(x)):
                raise Unsupported(s, "except handler that does not end in raise")
            if self.terminates(s.body):
                saved = set(self.locals)
                body = self.block(list(s.body), "(craise Unmodelled)", allow_return)
                self.locals = set(saved)
                handler = self.block(list(h.body), "(craise Unmodelled)", allow_return)
                self.locals = saved
                return f"(ctry {body} [{'; '.join(caught)}] {handler})"
            vs = self.assigned(s.body)
            saved = set(self.locals)
            tup = "(" + ", ".join(ident(v) for v in vs) + ")" if len(vs) != 1 else ident(vs[0])
            if not vs:
                tup = "tt"
            body = self.block(list(s.body), f"(cret {tup})", allow_return=False)
            self.locals = set(saved)
            handler = self.block(list(h.body), "(craise Unmodelled)", allow_return=False)
            self.locals = saved | set(vs)
            st = self.tmp("st")
            cont = self.block(rest, end, allow_return)
            if len(vs) == 1:
                return f"(cbind (ctry {body} [{'; '.join(caught)}] {handler}) (fun {ident(vs[0])} => {cont}))"
            if not vs:
                return f"(cbind (ctry {body} [{'; '.join(caught)}] {handler}) (fun _ => {cont}))"
            return f"(cbind (ctry {body} [{'; '.join(caught)}] {handler}) (fun {st} => let '{tup} := {st} in {cont}))"
        raise Unsupported(s, "statement")

    def emit(self):
        n = self.node
        if n.args.vararg or n.args.kwarg or n.args.kwonlyargs or n.args.defaults or n.args.posonlyargs or n.decorator_list:
            raise Unsupported(n, "function signature")
        params = " ".join(ident(a.arg) for a in n.args.args)
        rv = self.opts.get("returns_var")
        end = f"(cret {ident(rv)})" if rv else "(cret VNone)"
        body = self.block(list(n.body), end)
        return f"Definition gen_{n.name} ({params} : value) : cres value :=\n  {pretty(body)}.\n"


def pretty(code):
    """line breaks after `=>` of binders at shallow depth (readability only)"""
    out, depth, i = [], 0, 0
    while i < len(code):
        c = code[i]
        if c == "(":
            depth += 1
        elif c == ")":
            depth -= 1
        out.append(c)
        if code.startswith("=> ", i - 1) and c == ">" and depth < 60:
            out.append("\n" + "  " + " " * min(depth, 40))
            i += 1          # skip the space
        i += 1
    return "".join(out)


HEADER = """(* GENERATED by translator/specs_ioconfig.py from {src} -- do not edit.
   sha256 {sha}
   One definition per translated function of pydrex.io, statement by statement, over the primitives of
   Model_pyconfig.v. *)
From Coq Require Import Floats ZArith String List Bool.
From PV.gen Require Import Gen_tables_params.
From PV Require Import Model_config Model_pyconfig.
Import ListNotations.
Open Scope string_scope.

"""


def build_text():
    sys.path.insert(0, os.path.join(REPO, "src"))
    src = os.path.join(REPO, "src", "pydrex", "io.py")
    text = open(src).read()
    tree = ast.parse(text)
    defs = {n.name: n for n in tree.body if isinstance(n, ast.FunctionDef)}
    known = [f for f, _ in FUNCTIONS]
    out = [HEADER.format(src=os.path.relpath(src, REPO), sha=hashlib.sha256(text.encode()).hexdigest())]
    for name, opts in FUNCTIONS:
        if name not in defs:
            raise KeyError(f"pydrex.io has no function {name}")
        out.append(f"(* {name}: lines {defs[name].lineno}-{defs[name].end_lineno} *)")
        out.append(Fn(defs[name], opts, known).emit())
    return "\n".join(out)


def translations():
    outdir = sys.argv[1] if len(sys.argv) > 1 else os.path.join(
        os.path.dirname(os.path.dirname(os.path.abspath(__file__))), "coq", "gen")
    path = os.path.join(outdir, "Gen_io_config.v")
    try:
        text = build_text()
    except Exception as e:
        msg = f"{type(e).__name__}: {e}".replace("*)", "* )").replace("(*", "( *")
        with open(path, "w") as f:
            f.write("(* GENERATED by translator/specs_ioconfig.py: translation FAILED (construct outside the subset)\n   " + msg + " *)\n"
                    "Definition translation_failed : True := 0.\n")
        raise
    if not (os.path.exists(path) and open(path).read() == text):
        with open(path, "w") as f:
            f.write(text)
    return []


if __name__ == "__main__":
    print(build_text())
