"""Python-ast translator of group `scsv` (property C16), tie T.

Runs from gen.py on every build (`translations()` returns []; the output is written as a side effect, like
specs_params.py).  It reads the *current source text* of pydrex/io.py with `ast` (nothing is imported or executed)
and writes coq/gen/Gen_scsv.v, a shallow embedding of the pure decision logic of the SCSV code into the primitives
of coq/Model_scsv_py.v:

  whole functions   _validate_scsv_schema, _parse_scsv_bool, _parse_scsv_cell, parse_scsv_schema, _yaml_quote
  module constants  SCSV_TYPEMAP, SCSV_TERSEMAP, _SCSV_DEFAULT_TYPE, _SCSV_DEFAULT_FILL
  statement blocks  of save_scsv: the column-length check, the fills/types/names comprehensions, the body of the
                    row loop (per-cell parse check, isinstance / `in (float, complex)` / np.isnan / == chain, the
                    substitution of the missing marker);
                    of read_scsv: the line loop (blank lines, --- fences), the name comparison against the header
                    row, the coltypes / missingstr / fillvals assignments;
                    all of write_scsv_header (stream.write(x) appends x to the list that stands for the stream)

coq/Inst_scsv.v proves `generated = hand-written model` (Model_scsv.v, Model_scsv_frame.v) for ALL inputs, so an edit
of one of these source lines either changes the generated term (and the kernel rejects the instance lemma) or falls
outside the accepted subset, in which case this module raises and gen.py exits 3 naming specs_scsv (fail closed:
Gen_scsv.v is then replaced by a file that cannot compile).

Accepted subset (anything else raises `Unsupported` with the source line):
  statements   x = e | x[k] = e (x a fresh local container) | x.append(e) / x.pop() (idem) | if/elif/else |
               for <target> in <iterable> (no else) | try/except <ValueError|KeyError> whose handler raises |
               return e | raise _err.SCSVError(...) [from None] | continue | break | _log.<level>(...) | docstrings
  expressions  constants (str/int/bool/None) | names | a[b] | a[b:c] | single comparisons == != < <= > >= in, not in |
               and / or / not | x is None, x is not None | + - % | f-strings without conversions | os.linesep | e if c else e | tuple, list, dict (constant string keys) displays |
               one-clause list comprehensions without condition | calls of: len, isinstance, the five classes,
               a local variable (one argument), the translated functions (keyword arguments by signature),
               np.isnan, re.split, it.batched, zip(..., strict=True), zip(*x), enumerate, and the methods
               isidentifier, strip, lower, startswith, get, keys, find, split, replace | np.nan | x.__qualname__
  messages     the arguments of `_err.SCSVError(...)` and `_log.<level>(...)` are translated for their *effects*
               only (sub-expressions that can raise are evaluated in order); the text itself is dropped
"""
from __future__ import annotations

import ast
import hashlib
import os
import sys

REPO = os.environ.get("PYDREX_REPO", "/repo")
SRC = os.path.join(REPO, "src", "pydrex", "io.py")


class Unsupported(Exception):
    pass


def fail(node, msg):
    raise Unsupported(f"io.py line {getattr(node, 'lineno', '?')}: {msg}")


# ------------------------------------------------------------------------------------------------
# tables
# ------------------------------------------------------------------------------------------------
CLASSES = {"str": "TStr", "int": "TInt", "float": "TFloat", "bool": "TBool", "complex": "TCplx"}
# module aliases the source must establish (checked against its import statements)
ALIASES = {"np": "numpy", "re": "re", "it": "itertools", "os": "os"}
FROM_PYDREX = {"_log": "logger", "_err": "exceptions"}
LOG_LEVELS = {"debug", "info", "warning", "error", "critical"}
EXC = {"ValueError": "EValue", "KeyError": "EKey"}
# method name -> {number of arguments: primitive}
METHODS = {
    "isidentifier": {0: "py_isidentifier O"}, "strip": {0: "py_strip"}, "lower": {0: "py_lower"},
    "startswith": {1: "py_startswith"}, "get": {2: "py_get"}, "keys": {0: "py_keys"},
    "find": {1: "py_find", 3: "py_find3"}, "split": {1: "py_split"}, "replace": {2: "py_replace"},
}
CMP = {ast.Eq: "py_eq O", ast.NotEq: "py_ne O", ast.Lt: "py_lt", ast.LtE: "py_le", ast.Gt: "py_gt", ast.GtE: "py_ge",
       ast.In: "py_in O", ast.NotIn: "py_not_in O"}
BIN = {ast.Add: "py_add", ast.Sub: "py_sub", ast.Mod: "py_mod"}
BUILTIN_FUNCS = {"len", "isinstance", "zip", "enumerate"}
RESERVED = set(CLASSES) | BUILTIN_FUNCS | set(ALIASES) | set(FROM_PYDREX)

CONSTANTS = ("SCSV_TYPEMAP", "SCSV_TERSEMAP", "_SCSV_DEFAULT_TYPE", "_SCSV_DEFAULT_FILL")
FUNCTIONS = ("_validate_scsv_schema", "_parse_scsv_bool", "_parse_scsv_cell", "parse_scsv_schema", "_yaml_quote")


def coq_str(s: str) -> str:
    """Coq term of type string for a source constant (ASCII printable + line feed only)."""
    parts, cur = [], ""
    for ch in s:
        if ch == "\n":
            if cur:
                parts.append('"%s"' % cur)
                cur = ""
            parts.append("LF")
        elif 32 <= ord(ch) < 127:
            cur += '""' if ch == '"' else ch
        else:
            raise Unsupported(f"string constant with a character outside printable ASCII: {s!r}")
    if cur or not parts:
        parts.append('"%s"' % cur)
    return parts[0] if len(parts) == 1 else "(" + " ++ ".join(parts) + ")"


def ident(name: str) -> str:
    if not (name.isascii() and name.isidentifier()):
        raise Unsupported(f"identifier {name!r}")
    return "v_" + name


def names_in(nodes, ctx):
    out = set()
    for n in nodes if isinstance(nodes, (list, tuple)) else [nodes]:
        for x in ast.walk(n):
            if isinstance(x, ast.Name) and isinstance(x.ctx, ctx):
                out.add(x.id)
    return out


def mutated_in(nodes):
    """local names changed by x.append(..) / x.pop() / x[k] = .. statements"""
    out = set()
    for n in nodes if isinstance(nodes, (list, tuple)) else [nodes]:
        for x in ast.walk(n):
            if isinstance(x, ast.Expr) and isinstance(x.value, ast.Call) and isinstance(x.value.func, ast.Attribute) \
                    and x.value.func.attr in ("append", "pop", "write") and isinstance(x.value.func.value, ast.Name):
                out.add(x.value.func.value.id)
            if isinstance(x, ast.Assign):
                for t in x.targets:
                    if isinstance(t, ast.Subscript) and isinstance(t.value, ast.Name):
                        out.add(t.value.id)
    return out


def stores(nodes):
    return names_in(nodes, ast.Store) | mutated_in(nodes)


def loads(nodes):
    return names_in(nodes, ast.Load)


def tuple_expr(vs):
    if not vs:
        return "tt"
    return ident(vs[0]) if len(vs) == 1 else "(" + ", ".join(ident(x) for x in vs) + ")"


def tuple_pat(vs):
    if not vs:
        return "_"
    return ident(vs[0]) if len(vs) == 1 else "(" + ", ".join(ident(x) for x in vs) + ")"


def indent(text, n=2):
    pad = " " * n
    return "\n".join(pad + ln if ln else ln for ln in text.split("\n"))


# ------------------------------------------------------------------------------------------------
# the module
# ------------------------------------------------------------------------------------------------
class Module:
    def __init__(self, text):
        self.tree = ast.parse(text)
        self.funcs = {}
        self.consts = {}
        self.check_imports()
        for node in self.tree.body:
            if isinstance(node, ast.FunctionDef):
                if node.name in self.funcs:
                    fail(node, f"function {node.name} is defined twice")
                self.funcs[node.name] = node
            for tgt in self.module_targets(node):
                if tgt in RESERVED or tgt in FUNCTIONS:
                    fail(node, f"module-level rebinding of {tgt}")
                if tgt in CONSTANTS:
                    if tgt in self.consts:
                        fail(node, f"constant {tgt} is assigned twice")
                    self.consts[tgt] = node.value
        for f in self.funcs.values():
            if f.name in RESERVED:
                fail(f, f"module-level rebinding of {f.name}")
        # nothing else in the module may assign to a translated constant or to a name we resolve
        for x in ast.walk(self.tree):
            if isinstance(x, (ast.Global, ast.Nonlocal)):
                fail(x, "global / nonlocal declaration")
            if isinstance(x, ast.ClassDef) and x.name in RESERVED | set(CONSTANTS) | set(FUNCTIONS):
                fail(x, f"class named {x.name}")
        for c in CONSTANTS:
            if c not in self.consts:
                raise Unsupported(f"module constant {c} not found")

    @staticmethod
    def module_targets(node):
        if isinstance(node, ast.Assign):
            return [t.id for t in node.targets if isinstance(t, ast.Name)] + \
                   [n.id for t in node.targets if not isinstance(t, ast.Name) for n in ast.walk(t) if isinstance(n, ast.Name)]
        if isinstance(node, (ast.AnnAssign, ast.AugAssign)) and isinstance(node.target, ast.Name):
            return [node.target.id]
        return []

    def check_imports(self):
        seen = {}
        for node in ast.walk(self.tree):
            if isinstance(node, ast.Import):
                for a in node.names:
                    seen[a.asname or a.name.split(".")[0]] = ("import", a.name)
            elif isinstance(node, ast.ImportFrom):
                for a in node.names:
                    seen[a.asname or a.name] = ("from", node.module, a.name)
        for alias, mod in ALIASES.items():
            if seen.get(alias) != ("import", mod):
                raise Unsupported(f"expected `import {mod} as {alias}`, found {seen.get(alias)}")
        for alias, mod in FROM_PYDREX.items():
            if seen.get(alias) != ("from", "pydrex", mod):
                raise Unsupported(f"expected `from pydrex import {mod} as {alias}`, found {seen.get(alias)}")
        for name in set(CLASSES) | BUILTIN_FUNCS:
            if name in seen:
                raise Unsupported(f"builtin {name} is shadowed by an import")


# ------------------------------------------------------------------------------------------------
# one function / block
# ------------------------------------------------------------------------------------------------
class Body:
    """translation of one function body or statement block"""

    def __init__(self, mod: Module, where: str, sigs, opaque=None):
        self.opaque = opaque or {}    # ast.dump of an expression that is a parameter of the block -> its name
        self.mod = mod
        self.where = where
        self.sigs = sigs              # translated functions: name -> (params, defaults as Coq atoms)
        self.n = 0
        self.fresh_vars = set()       # local names currently bound to a container nobody else refers to
        self.escaped = set()
        self.sinks = set()            # parameters standing for an output stream: x.write(e) appends e to the list x

    def fresh(self, base="t"):
        self.n += 1
        return f"{base}{self.n}"

    # ---------------------------------------------------------------- expressions
    def pure(self, e, defined):
        """Coq term of type pyval when e has no effect and cannot raise, else None"""
        if self.opaque and ast.dump(e) in self.opaque:
            return ident(self.opaque[ast.dump(e)])
        if isinstance(e, ast.Constant):
            v = e.value
            if v is None:
                return "PNone"
            if isinstance(v, bool):
                return "(PBool %s)" % ("true" if v else "false")
            if isinstance(v, int):
                return "(PInt (%d))" % v
            if isinstance(v, str):
                return "(PStr %s)" % coq_str(v)
            fail(e, f"constant {v!r}")
        if isinstance(e, ast.Name):
            if e.id in defined:
                return ident(e.id)
            if e.id in CLASSES:
                return "(PType %s)" % CLASSES[e.id]
            if e.id in CONSTANTS:
                return "c_" + e.id
            fail(e, f"name {e.id} is not a parameter, a local assigned on every path, a class or a translated constant")
        if isinstance(e, ast.UnaryOp) and isinstance(e.op, ast.USub) and isinstance(e.operand, ast.Constant) \
                and type(e.operand.value) is int:
            return "(PInt (%d))" % (-e.operand.value)
        if isinstance(e, ast.Attribute) and isinstance(e.value, ast.Name) and e.value.id == "np" and e.attr == "nan":
            return "(PFloat FNan)"
        if isinstance(e, ast.Attribute) and isinstance(e.value, ast.Name) and e.value.id == "os" and e.attr == "linesep" \
                and "os" not in defined:
            return "(PStr LF)"                      # the line terminator of the platform the check runs on
        if isinstance(e, (ast.Tuple, ast.List)) and isinstance(e.ctx, ast.Load):
            parts = [self.pure(x, defined) for x in e.elts]
            if all(p is not None for p in parts):
                return "(%s [%s])" % ("PTuple" if isinstance(e, ast.Tuple) else "PList", "; ".join(parts))
            return None
        if isinstance(e, ast.Dict):
            keys = self.dict_keys(e)
            parts = [self.pure(x, defined) for x in e.values]
            if all(p is not None for p in parts):
                return "(PDict [%s])" % "; ".join("(%s, %s)" % (coq_str(k), p) for k, p in zip(keys, parts))
            return None
        return None

    @staticmethod
    def dict_keys(e):
        keys = []
        for k in e.keys:
            if not (isinstance(k, ast.Constant) and isinstance(k.value, str)):
                fail(e, "dict display with a key that is not a string constant")
            if k.value in keys:
                fail(e, "dict display with a repeated key")
            keys.append(k.value)
        return keys

    def atom(self, e, out, defined):
        p = self.pure(e, defined)
        if p is not None:
            return p
        code = self.expr(e, out, defined)
        t = self.fresh()
        out.append((t, code))
        return t

    def seq(self, out, final):
        """bindings followed by a final term of type res _"""
        return "".join(f"{n} <- {c} ;;\n" for n, c in out) + final

    def sub(self, e, defined):
        """e as a self-contained term of type res pyval (for lazily evaluated positions)"""
        out = []
        p = self.pure(e, defined)
        if p is not None:
            return "(Ok %s)" % p
        code = self.expr(e, out, defined)
        return "(" + self.seq(out, code) + ")"

    def expr(self, e, out, defined):
        """Coq term of type res pyval; bindings of sub-expressions are appended to out"""
        p = self.pure(e, defined)
        if p is not None:
            return "Ok %s" % p
        A = lambda x: self.atom(x, out, defined)       # noqa: E731
        if isinstance(e, ast.Compare):
            if len(e.ops) != 1:
                fail(e, "comparison chain")
            if isinstance(e.ops[0], (ast.Is, ast.IsNot)):
                c0 = e.comparators[0]
                if not (isinstance(c0, ast.Constant) and c0.value is None):
                    fail(e, "`is` / `is not` with anything but None")
                return f"{'py_is_none' if isinstance(e.ops[0], ast.Is) else 'py_is_not_none'} {A(e.left)}"
            op = CMP.get(type(e.ops[0]))
            if op is None:
                fail(e, f"comparison operator {type(e.ops[0]).__name__}")
            a = A(e.left)
            b = A(e.comparators[0])
            return f"{op} {a} {b}"
        if isinstance(e, ast.BoolOp):
            prim = "py_and" if isinstance(e.op, ast.And) else "py_or"
            first = A(e.values[0])
            rest = e.values[1:]

            def chain(vals):
                if len(vals) == 1:
                    return self.sub(vals[0], defined)
                o2 = []
                a = self.atom(vals[0], o2, defined)
                return "(" + self.seq(o2, f"{prim} {a} {chain(vals[1:])}") + ")"
            return f"{prim} {first} {chain(rest)}"
        if isinstance(e, ast.UnaryOp) and isinstance(e.op, ast.Not):
            return f"py_not {A(e.operand)}"
        if isinstance(e, ast.BinOp):
            op = BIN.get(type(e.op))
            if op is None:
                fail(e, f"binary operator {type(e.op).__name__}")
            a = A(e.left)
            b = A(e.right)
            return f"{op} {a} {b}"
        if isinstance(e, ast.IfExp):
            c = A(e.test)
            b = self.fresh("b")
            out.append((b, f"py_truth {c}"))
            return f"(if {b} then {self.sub(e.body, defined)} else {self.sub(e.orelse, defined)})"
        if isinstance(e, ast.Subscript):
            c = A(e.value)
            if isinstance(e.slice, ast.Slice):
                if e.slice.step is not None:
                    fail(e, "slice with a step")
                lo = A(e.slice.lower) if e.slice.lower is not None else "PNone"
                hi = A(e.slice.upper) if e.slice.upper is not None else "PNone"
                return f"py_slice {c} {lo} {hi}"
            return f"py_getitem {c} {A(e.slice)}"
        if isinstance(e, (ast.Tuple, ast.List)):
            parts = [A(x) for x in e.elts]
            return "Ok (%s [%s])" % ("PTuple" if isinstance(e, ast.Tuple) else "PList", "; ".join(parts))
        if isinstance(e, ast.Dict):
            keys = self.dict_keys(e)
            parts = [A(x) for x in e.values]
            return "Ok (PDict [%s])" % "; ".join("(%s, %s)" % (coq_str(k), p) for k, p in zip(keys, parts))
        if isinstance(e, ast.ListComp):
            if len(e.generators) != 1:
                fail(e, "comprehension with several clauses")
            g = e.generators[0]
            if g.ifs or g.is_async or not isinstance(g.target, ast.Name):
                fail(e, "comprehension with a condition or a structured target")
            if g.target.id in defined or g.target.id in RESERVED or g.target.id in CONSTANTS:
                fail(e, f"comprehension variable {g.target.id} shadows another name")
            it = self.iter_expr(g.iter, out, defined)
            body = self.sub(e.elt, defined | {g.target.id})
            return f"list_comp (fun {ident(g.target.id)} => {body}) {it}"
        if isinstance(e, ast.JoinedStr):                      # f"...{x}..." : the parts, str() of each value, concatenated
            acc = None
            for v in e.values:
                if isinstance(v, ast.Constant) and isinstance(v.value, str):
                    part = "(PStr %s)" % coq_str(v.value)
                elif isinstance(v, ast.FormattedValue) and v.conversion == -1 and v.format_spec is None:
                    part = self.fresh()
                    out.append((part, f"py_call1 O (PType TStr) {A(v.value)}"))
                else:
                    fail(e, "f-string with a conversion or a format specification")
                if acc is None:
                    acc = part
                else:
                    t = self.fresh()
                    out.append((t, f"py_add {acc} {part}"))
                    acc = t
            return "Ok %s" % (acc or '(PStr "")')
        if isinstance(e, ast.Attribute):
            if e.attr == "__qualname__":
                return f"py_qualname {A(e.value)}"
            fail(e, f"attribute .{e.attr}")
        if isinstance(e, ast.Call):
            return self.call(e, out, defined)
        fail(e, f"expression {type(e).__name__}")

    def call(self, e, out, defined):
        A = lambda x: self.atom(x, out, defined)       # noqa: E731
        f = e.func
        if any(isinstance(a, ast.Starred) for a in e.args) or any(k.arg is None for k in e.keywords):
            fail(e, "call with * or ** arguments")
        if isinstance(f, ast.Name):
            if f.id in defined:                                     # calling a local variable: t(f)
                if len(e.args) != 1 or e.keywords:
                    fail(e, "call of a local variable with other than one positional argument")
                return f"py_call1 O {ident(f.id)} {A(e.args[0])}"
            if f.id in CLASSES:
                if len(e.args) != 1 or e.keywords:
                    fail(e, f"{f.id}(...) with other than one positional argument")
                return f"py_call1 O (PType {CLASSES[f.id]}) {A(e.args[0])}"
            if f.id == "len" and len(e.args) == 1 and not e.keywords:
                return f"py_len {A(e.args[0])}"
            if f.id == "isinstance" and len(e.args) == 2 and not e.keywords:
                a = A(e.args[0])
                return f"py_isinstance {a} {A(e.args[1])}"
            if f.id in self.sigs:
                params, defaults = self.sigs[f.id]
                if len(e.args) > len(params):
                    fail(e, f"too many arguments for {f.id}")
                vals = {}
                for p, a in zip(params, e.args):
                    vals[p] = A(a)
                for k in e.keywords:
                    if k.arg not in params or k.arg in vals:
                        fail(e, f"keyword argument {k.arg} of {f.id}")
                    vals[k.arg] = A(k.value)
                args = []
                for p in params:
                    if p in vals:
                        args.append(vals[p])
                    elif p in defaults:
                        args.append(defaults[p])
                    else:
                        fail(e, f"missing argument {p} of {f.id}")
                return f"gen_{f.id} " + " ".join(args)
            fail(e, f"call of {f.id}")
        if isinstance(f, ast.Attribute):
            if isinstance(f.value, ast.Name) and f.value.id not in defined and f.value.id not in CONSTANTS:
                m = (f.value.id, f.attr)
                if m == ("np", "isnan") and len(e.args) == 1 and not e.keywords:
                    return f"np_isnan {A(e.args[0])}"
                if m == ("re", "split") and len(e.args) == 2 and not e.keywords:
                    a = A(e.args[0])
                    return f"py_re_split {a} {A(e.args[1])}"
                if m == ("it", "batched") and len(e.args) == 2 and not e.keywords:
                    a = A(e.args[0])
                    return f"py_batched {a} {A(e.args[1])}"
                fail(e, f"call of {f.value.id}.{f.attr}")
            prim = METHODS.get(f.attr, {}).get(len(e.args))
            if prim is None or e.keywords:
                fail(e, f"method .{f.attr} with {len(e.args)} arguments")
            recv = A(f.value)
            return " ".join([prim, recv] + [A(a) for a in e.args])
        fail(e, "call of a computed function")

    def iter_expr(self, e, out, defined):
        """name of a bound value of type iter"""
        A = lambda x: self.atom(x, out, defined)       # noqa: E731
        t = self.fresh("it")
        if isinstance(e, ast.Call) and isinstance(e.func, ast.Name) and e.func.id == "zip" and "zip" not in defined:
            kw = {k.arg: k.value for k in e.keywords}
            if len(e.args) == 1 and isinstance(e.args[0], ast.Starred) and not kw:
                out.append((t, f"py_zip_star {A(e.args[0].value)}"))
                return t
            if any(isinstance(a, ast.Starred) for a in e.args):
                fail(e, "zip with mixed * arguments")
            strict = False
            if kw:
                if set(kw) != {"strict"} or not (isinstance(kw["strict"], ast.Constant) and kw["strict"].value is True):
                    fail(e, "zip with keyword arguments other than strict=True")
                strict = True
            args = "; ".join(A(a) for a in e.args)
            out.append((t, f"{'py_zip_strict' if strict else 'py_zip'} [{args}]"))
            return t
        if isinstance(e, ast.Call) and isinstance(e.func, ast.Name) and e.func.id == "enumerate" and "enumerate" not in defined:
            if len(e.args) != 1 or e.keywords:
                fail(e, "enumerate with other than one argument")
            inner = self.iter_expr(e.args[0], out, defined)
            out.append((t, f"py_enumerate {inner}"))
            return t
        out.append((t, f"py_iter {A(e)}"))
        return t

    def effects(self, e, out, defined):
        """evaluate what can raise inside a message expression; the text is dropped"""
        if isinstance(e, ast.Constant):
            return
        if isinstance(e, ast.Name):
            self.pure(e, defined)
            return
        if isinstance(e, ast.JoinedStr):
            for v in e.values:
                if isinstance(v, ast.FormattedValue):
                    if v.format_spec is not None:
                        fail(e, "f-string with a format specification")
                    self.effects(v.value, out, defined)
            return
        if isinstance(e, ast.BinOp) and isinstance(e.op, ast.Add):
            self.effects(e.left, out, defined)
            self.effects(e.right, out, defined)
            return
        self.atom(e, out, defined)

    # ---------------------------------------------------------------- statements
    def target(self, t, item, defined_new):
        """code that binds the names of a for-target from `item`; returns (text, names)"""
        if isinstance(t, ast.Name):
            return f"let {ident(t.id)} := {item} in\n", [t.id]
        if isinstance(t, ast.Tuple) and len(t.elts) in (2, 3):
            names, text, parts = [], "", []
            later = []
            for x in t.elts:
                if isinstance(x, ast.Name):
                    parts.append(ident(x.id))
                    names.append(x.id)
                else:
                    tmp = self.fresh("u")
                    parts.append(tmp)
                    later.append((x, tmp))
            p = self.fresh("p")
            text = f"{p} <- py_unpack{len(t.elts)} {item} ;;\nlet '({', '.join(parts)}) := {p} in\n"
            for x, tmp in later:
                tx, nm = self.target(x, tmp, defined_new)
                text += tx
                names += nm
            return text, names
        fail(t, "loop target")

    def check_store(self, node, name):
        if name in RESERVED or name in CONSTANTS or name in FUNCTIONS or name in self.sigs:
            fail(node, f"assignment to {name}")

    def is_fresh_expr(self, e):
        if isinstance(e, (ast.List, ast.Dict)):
            return True
        if isinstance(e, ast.Call) and isinstance(e.func, ast.Attribute):
            if isinstance(e.func.value, ast.Name) and (e.func.value.id, e.func.attr) == ("re", "split"):
                return True
            if e.func.attr == "split":
                return True
        return False

    def note_escapes(self, e):
        """names whose value becomes reachable from another object"""
        for x in ast.walk(e):
            if isinstance(x, ast.Name) and isinstance(x.ctx, ast.Load):
                self.escaped.add(x.id)

    def block(self, stmts, out_vars, loop_vars, defined, live_after):
        """Coq term of type res (ctl T L): T = out_vars, L = loop_vars of the enclosing for"""
        if not stmts:
            for x in out_vars:
                if x not in defined:
                    raise Unsupported(f"{self.where}: variable {x} is not assigned on every path that reaches its use")
            return f"Ok (CNormal {tuple_expr(out_vars)})"
        s, rest = stmts[0], stmts[1:]
        live_rest = loads(rest) | live_after
        K = lambda d: self.block(rest, out_vars, loop_vars, d, live_after)       # noqa: E731

        def join(inner, export, d_after, after_loop=False):
            """inner : res (ctl export L) ; continue with rest"""
            c = self.fresh("c")
            if not rest and list(export) == list(out_vars) and not after_loop:
                return inner
            arms = f"| CNormal {tuple_pat(export)} =>\n{indent(K(d_after))}\n| CReturn v => Ok (CReturn v)\n"
            arms += "| CContinue l => Ok (CContinue l)\n| CBreak l => Ok (CBreak l)\n"
            return f"{c} <- {inner} ;;\nmatch {c} with\n{arms}end"

        def exports(node):
            return sorted(n for n in stores(node) if n in live_rest or n in out_vars or (loop_vars and n in loop_vars))

        # docstring / bare constant
        if isinstance(s, ast.Expr) and isinstance(s.value, ast.Constant):
            return K(defined)
        if isinstance(s, ast.Pass):
            return K(defined)
        if isinstance(s, ast.Assign):
            if len(s.targets) != 1:
                fail(s, "chained assignment")
            t = s.targets[0]
            out = []
            if isinstance(t, ast.Name):
                self.check_store(s, t.id)
                code = self.expr(s.value, out, defined)
                if self.is_fresh_expr(s.value):
                    self.fresh_vars.add(t.id)
                    self.escaped.discard(t.id)
                else:
                    self.fresh_vars.discard(t.id)
                self.note_escapes(s.value)
                return self.seq(out, f"{ident(t.id)} <- {code} ;;\n") + K(defined | {t.id})
            if isinstance(t, ast.Subscript) and isinstance(t.value, ast.Name) and not isinstance(t.slice, ast.Slice):
                x = t.value.id
                self.mutation_ok(s, x, defined)
                k = self.atom(t.slice, out, defined)
                v = self.atom(s.value, out, defined)
                self.note_escapes(s.value)
                return self.seq(out, f"{ident(x)} <- py_setitem {ident(x)} {k} {v} ;;\n") + K(defined)
            fail(s, "assignment target")
        if isinstance(s, ast.Expr) and isinstance(s.value, ast.Call):
            c = s.value
            f = c.func
            out = []
            if isinstance(f, ast.Attribute) and isinstance(f.value, ast.Name) and f.value.id == "_log" and "_log" not in defined:
                if f.attr not in LOG_LEVELS or c.keywords:
                    fail(s, f"_log.{f.attr}")
                for a in c.args:
                    self.effects(a, out, defined)
                return self.seq(out, "") + K(defined)
            if isinstance(f, ast.Attribute) and isinstance(f.value, ast.Name) and f.value.id in self.sinks \
                    and f.value.id in defined and f.attr == "write":
                x = f.value.id
                if len(c.args) != 1 or c.keywords:
                    fail(s, "write with other than one argument")
                v = self.atom(c.args[0], out, defined)
                return self.seq(out, f"{ident(x)} <- py_append {ident(x)} {v} ;;\n") + K(defined)
            if isinstance(f, ast.Attribute) and isinstance(f.value, ast.Name) and f.value.id in defined \
                    and f.attr in ("append", "pop"):
                x = f.value.id
                self.mutation_ok(s, x, defined)
                if f.attr == "append":
                    if len(c.args) != 1 or c.keywords:
                        fail(s, "append with other than one argument")
                    v = self.atom(c.args[0], out, defined)
                    self.note_escapes(c.args[0])
                    return self.seq(out, f"{ident(x)} <- py_append {ident(x)} {v} ;;\n") + K(defined)
                if c.args or c.keywords:
                    fail(s, "pop with arguments")
                return self.seq(out, f"{ident(x)} <- py_pop {ident(x)} ;;\n") + K(defined)
            if isinstance(f, ast.Name) and f.id in self.sigs:
                code = self.expr(c, out, defined)
                return self.seq(out, f"_ <- {code} ;;\n") + K(defined)
            fail(s, "expression statement")
        if isinstance(s, ast.Return):
            if rest:
                fail(rest[0], "statement after return")
            out = []
            if s.value is None:
                return "Ok (CReturn PNone)"
            a = self.atom(s.value, out, defined)
            return self.seq(out, f"Ok (CReturn {a})")
        if isinstance(s, ast.Raise):
            if rest:
                fail(rest[0], "statement after raise")
            e = s.exc
            if not (isinstance(e, ast.Call) and isinstance(e.func, ast.Attribute) and isinstance(e.func.value, ast.Name)
                    and e.func.value.id == "_err" and e.func.attr == "SCSVError" and not e.keywords):
                fail(s, "raise of anything but _err.SCSVError(...)")
            if s.cause is not None and not (isinstance(s.cause, ast.Constant) and s.cause.value is None):
                fail(s, "raise ... from <exception>")
            out = []
            for a in e.args:
                self.effects(a, out, defined)
            return self.seq(out, "Err SCSV")
        if isinstance(s, (ast.Continue, ast.Break)):
            if rest:
                fail(rest[0], "statement after continue / break")
            if loop_vars is None:
                fail(s, "continue / break outside a translated loop")
            for x in loop_vars:
                if x not in defined:
                    fail(s, f"loop variable {x} undefined")
            return f"Ok ({'CContinue' if isinstance(s, ast.Continue) else 'CBreak'} {tuple_expr(loop_vars)})"
        if isinstance(s, ast.If):
            export = exports(s)
            out = []
            a = self.atom(s.test, out, defined)
            b = self.fresh("b")
            saved = (set(self.fresh_vars), set(self.escaped))
            then = self.block(s.body, export, loop_vars, set(defined), live_rest)
            st_then = (set(self.fresh_vars), set(self.escaped))
            self.fresh_vars, self.escaped = set(saved[0]), set(saved[1])
            other = self.block(s.orelse, export, loop_vars, set(defined), live_rest)
            self.fresh_vars = self.fresh_vars & st_then[0]
            self.escaped = self.escaped | st_then[1]
            inner = f"(if {b} then\n{indent(then)}\nelse\n{indent(other)})"
            return self.seq(out, f"{b} <- py_truth {a} ;;\n") + join(inner, export, defined | set(export))
        if isinstance(s, ast.For):
            if s.orelse:
                fail(s, "for ... else")
            out = []
            it = self.iter_expr(s.iter, out, defined)
            item = self.fresh("x")
            ttext, tnames = self.target(s.target, item, None)
            for nm in tnames:
                self.check_store(s, nm)
                if nm in defined or nm in live_rest:
                    fail(s, f"loop target {nm} is used outside its loop")
            assigned = stores(s.body)
            state = sorted(n for n in assigned if n in defined)
            for n in assigned:
                if n not in defined and (n in live_rest or n in out_vars or (loop_vars and n in loop_vars)):
                    fail(s, f"variable {n} is first assigned inside a loop and used after it")
            d_body = set(defined) | set(tnames)
            body = self.block(s.body, state, state, d_body, (loads(s.body) & set(defined)) | live_rest)
            stpat = tuple_pat(state) if len(state) != 0 else "(_ : unit)"
            if len(state) > 1:
                st = self.fresh("st")
                head = f"fun {item} {st} =>\nlet '{tuple_pat(state)} := {st} in\n"
            else:
                head = f"fun {item} {stpat} =>\n"
            inner = f"for_loop ({head}{indent(ttext + body)}) {it} {tuple_expr(state)}"
            return self.seq(out, "") + join(inner, state, defined, after_loop=True)
        if isinstance(s, ast.Try):
            if s.orelse or s.finalbody or len(s.handlers) != 1:
                fail(s, "try with else / finally / several handlers")
            h = s.handlers[0]
            if h.name is not None or not (isinstance(h.type, ast.Name) and h.type.id in EXC):
                fail(s, "except clause other than `except ValueError:` / `except KeyError:`")
            if not isinstance(h.body[-1], ast.Raise):
                fail(h, "exception handler that does not end in raise")
            if stores(s.body) & loads(h.body):
                fail(h, "exception handler reads a variable assigned in the try body")
            export = exports(s)
            body = self.block(s.body, export, loop_vars, set(defined), live_rest)
            hb = self.block(h.body, export, loop_vars, set(defined) | set(export), live_rest)
            inner = f"py_try (\n{indent(body)})\n  {EXC[h.type.id]} (\n{indent(hb)})"
            return join(inner, export, defined | set(export))
        fail(s, f"statement {type(s).__name__}")

    def mutation_ok(self, node, x, defined):
        if x not in defined:
            fail(node, f"{x} is not a local variable")
        if x not in self.fresh_vars:
            fail(node, f"in-place change of {x}, which is not known to hold a fresh list / dict")
        if x in self.escaped:
            fail(node, f"in-place change of {x} after it became reachable from another object")


# ------------------------------------------------------------------------------------------------
# block selection inside save_scsv / read_scsv
# ------------------------------------------------------------------------------------------------
def all_bodies(fn):
    """every statement list inside fn (bodies of with / try / for / if ...), depth first"""
    todo = [fn.body]
    while todo:
        b = todo.pop(0)
        yield b
        for s in b:
            for field in ("body", "orelse", "finalbody"):
                sub = getattr(s, field, None)
                if isinstance(sub, list) and sub and isinstance(sub[0], ast.stmt):
                    todo.append(sub)
            for h in getattr(s, "handlers", []):
                todo.append(h.body)


def assigns_to(s, name):
    return isinstance(s, ast.Assign) and len(s.targets) == 1 and isinstance(s.targets[0], ast.Name) and s.targets[0].id == name


def find_run(fn, preds, what):
    """the unique run of consecutive statements of fn matching the predicates"""
    hits = []
    for b in all_bodies(fn):
        for i in range(len(b) - len(preds) + 1):
            if all(p(b[i + k]) for k, p in enumerate(preds)):
                hits.append(b[i:i + len(preds)])
    if len(hits) != 1:
        raise Unsupported(f"{fn.name}: expected exactly one {what}, found {len(hits)}")
    return hits[0]


def is_for_over(s, pred):
    return isinstance(s, ast.For) and pred(s)


def save_blocks(fn):
    """(name, params, statements, result variables) of the translated parts of save_scsv"""
    lengths = find_run(fn, [lambda s: assigns_to(s, "n_rows"), lambda s: isinstance(s, ast.For)], "column-length check")
    columns = find_run(fn, [lambda s: assigns_to(s, "fills"), lambda s: assigns_to(s, "types"), lambda s: assigns_to(s, "names")],
                       "fills / types / names assignment")
    rowloop = find_run(fn, [lambda s: isinstance(s, ast.For) and any(assigns_to(x, "row") for x in s.body)], "row loop")[0]
    body = rowloop.body
    # the last statement hands the row to csv.writer: writer.writerow(row); everything before it is translated
    last = body[-1]
    if not (isinstance(last, ast.Expr) and isinstance(last.value, ast.Call) and isinstance(last.value.func, ast.Attribute)
            and last.value.func.attr == "writerow" and isinstance(last.value.func.value, ast.Name)
            and len(last.value.args) == 1 and isinstance(last.value.args[0], ast.Name) and last.value.args[0].id == "row"
            and not last.value.keywords):
        fail(last, "the row loop of save_scsv does not end in writer.writerow(row)")
    if not isinstance(rowloop.target, ast.Name):
        fail(rowloop, "row loop target")
    col = rowloop.target.id
    it = rowloop.iter
    if not (isinstance(it, ast.Call) and isinstance(it.func, ast.Name) and it.func.id == "zip" and len(it.args) == 1
            and isinstance(it.args[0], ast.Starred) and isinstance(it.args[0].value, ast.Name) and it.args[0].value.id == "data"
            and not it.keywords):
        fail(rowloop, "the row loop of save_scsv does not iterate over zip(*data)")
    return [("save_scsv_lengths", ["data"], lengths, ["n_rows"], {}),
            ("save_scsv_columns", ["schema"], columns, ["fills", "types", "names"], {}),
            ("save_scsv_row", ["schema", "names", "types", "fills", col], body[:-1], ["row"], {})]


def read_blocks(fn):
    loop = find_run(fn, [lambda s: assigns_to(s, "yaml_lines"), lambda s: assigns_to(s, "csv_lines"),
                         lambda s: assigns_to(s, "is_yaml"), lambda s: isinstance(s, ast.For)], "line loop")
    f = loop[3]
    if not (isinstance(f.iter, ast.Name) and isinstance(f.target, ast.Name)):
        fail(f, "line loop of read_scsv")
    names = find_run(fn, [lambda s: assigns_to(s, "schema_colnames"), lambda s: assigns_to(s, "header_colnames"),
                          lambda s: isinstance(s, ast.If) and "header_colnames" in loads(s.test)], "header row comparison")
    nxt = ast.dump(ast.parse("next(reader)", mode="eval").body)
    typ = find_run(fn, [lambda s: assigns_to(s, "coltypes"), lambda s: assigns_to(s, "missingstr"), lambda s: assigns_to(s, "fillvals")],
                   "coltypes / missingstr / fillvals assignment")
    return [("read_scsv_lines", [f.iter.id], loop, ["yaml_lines", "csv_lines"], {}),
            ("read_scsv_names", ["schema", "next_reader", "file"], names, ["schema_colnames"], {nxt: "next_reader"}),
            ("read_scsv_columns", ["schema"], typ, ["coltypes", "missingstr", "fillvals"], {})]


# ------------------------------------------------------------------------------------------------
# output
# ------------------------------------------------------------------------------------------------
PRELUDE = """From Coq Require Import String Ascii List ZArith Bool.
From PV Require Import Model_scsv Model_scsv_frame Model_scsv_py.
Import ListNotations.
Open Scope string_scope.
"""


def result_type(n):
    return "pyval" if n == 1 else "(" + " * ".join(["pyval"] * n) + ")"


def build_text():
    text = open(SRC).read()
    mod = Module(text)
    parts = ["(* GENERATED by translator/specs_scsv.py from src/pydrex/io.py (sha256 %s) -- do not edit. *)\n"
             % hashlib.sha256(text.encode()).hexdigest(), PRELUDE]
    # constants
    b0 = Body(mod, "module constants", {})
    for c in CONSTANTS:
        p = b0.pure(mod.consts[c], set())
        if p is None:
            fail(mod.consts[c], f"constant {c} is not a display of constants and classes")
        parts.append(f"Definition c_{c} : pyval := {p}.\n")
    parts.append("\nSection Gen.\nVariable O : oracles.\n")
    sigs = {}
    # functions, callees first
    order = ["_parse_scsv_bool", "_parse_scsv_cell", "_validate_scsv_schema", "parse_scsv_schema", "_yaml_quote"]
    for name in order:
        if name not in mod.funcs:
            raise Unsupported(f"function {name} not found")
    for name in order:
        fn = mod.funcs[name]
        a = fn.args
        if a.vararg or a.kwarg or a.kwonlyargs or a.posonlyargs:
            fail(fn, "function with * / ** / keyword-only / positional-only parameters")
        for d in fn.decorator_list:       # the only decorator accepted: the definition guard on the interpreter version
            if ast.dump(d) != ast.dump(ast.parse("_utils.defined_if(sys.version_info >= (3, 12))", mode="eval").body):
                fail(fn, "decorator")
        params = [x.arg for x in a.args]
        b = Body(mod, name, dict(sigs))
        defaults = {}
        for p, d in zip(params[len(params) - len(a.defaults):], a.defaults):
            v = b.pure(d, set())
            if v is None:
                fail(fn, "default value that is not a constant")
            defaults[p] = v
        for p in params:
            b.check_store(fn, p)
        body = b.block(fn.body, [], None, set(params), set())
        parts.append(f"\n(* def {name}({', '.join(params)})   -- io.py line {fn.lineno} *)\n"
                     f"Definition gen_{name} {' '.join('(%s : pyval)' % ident(p) for p in params)} : res pyval :=\n"
                     f"  run_fn (\n{indent(body, 4)}).\n")
        sigs[name] = (params, defaults)
    # write_scsv_header: the whole body; the stream is a list to which stream.write(x) appends x
    fn = mod.funcs.get("write_scsv_header")
    if fn is None:
        raise Unsupported("function write_scsv_header not found")
    a = fn.args
    if [x.arg for x in a.args] != ["stream", "schema", "comments"] or a.vararg or a.kwarg or a.kwonlyargs or a.posonlyargs \
            or fn.decorator_list or len(a.defaults) != 1 or not (isinstance(a.defaults[0], ast.Constant) and a.defaults[0].value is None):
        fail(fn, "signature of write_scsv_header")
    b = Body(mod, "write_scsv_header", dict(sigs))
    b.sinks = {"stream"}
    b.fresh_vars = {"stream"}
    for x in ast.walk(fn):          # the stream may only be written to
        if isinstance(x, ast.Name) and x.id == "stream" and not isinstance(x.ctx, ast.Load):
            fail(x, "assignment to stream")
    uses = sum(1 for x in ast.walk(fn) if isinstance(x, ast.Name) and x.id == "stream")
    writes = sum(1 for x in ast.walk(fn) if isinstance(x, ast.Call) and isinstance(x.func, ast.Attribute) and x.func.attr == "write"
                 and isinstance(x.func.value, ast.Name) and x.func.value.id == "stream")
    if uses != writes:
        fail(fn, "stream is used for something else than stream.write(...)")
    body = b.block(fn.body, ["stream"], None, {"stream", "schema", "comments"}, {"stream"})
    parts.append(f"\n(* def write_scsv_header(stream, schema, comments)   -- io.py line {fn.lineno}; stream = the list of strings written so far *)\n"
                 f"Definition gen_write_scsv_header (v_stream : pyval) (v_schema : pyval) (v_comments : pyval) : res pyval :=\n"
                 f"  run_block (\n{indent(body, 4)}).\n")
    for fname, blocks in (("save_scsv", save_blocks), ("read_scsv", read_blocks)):
        if fname not in mod.funcs:
            raise Unsupported(f"function {fname} not found")
        for bname, params, stmts, results, opaque in blocks(mod.funcs[fname]):
            b = Body(mod, bname, dict(sigs), opaque)
            for p in params:
                b.check_store(stmts[0], p)
            body = b.block(stmts, results, None, set(params), set(results))
            parts.append(f"\n(* statements of {fname}, io.py lines {stmts[0].lineno}-{stmts[-1].end_lineno}; "
                         f"free variables {', '.join(params)}; value: {', '.join(results)} *)\n"
                         f"Definition gen_{bname} {' '.join('(%s : pyval)' % ident(p) for p in params)} : res {result_type(len(results))} :=\n"
                         f"  run_block (\n{indent(body, 4)}).\n")
    parts.append("\nEnd Gen.\n")
    return "".join(parts)


def translations():
    outdir = sys.argv[1] if len(sys.argv) > 1 else os.path.join(
        os.path.dirname(os.path.dirname(os.path.abspath(__file__))), "coq", "gen")
    path = os.path.join(outdir, "Gen_scsv.v")
    try:
        text = build_text()
    except Exception as e:
        # fail closed: a stale Gen_scsv.v must not survive a failed translation
        msg = f"{type(e).__name__}: {e}".replace("*)", "* )").replace("(*", "( *")
        with open(path, "w") as f:
            f.write("(* GENERATED by translator/specs_scsv.py: translation FAILED\n   " + msg + " *)\n"
                    "Definition translation_failed : True := 0.\n")
        raise
    if not (os.path.exists(path) and open(path).read() == text):
        with open(path, "w") as f:
            f.write(text)
    return []


if __name__ == "__main__":
    print(build_text())
